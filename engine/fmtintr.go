package main

import (
	"fmt"
	"math/big"
	"strings"

	"golang.org/x/tools/go/ssa"
)

// fmt.Sprintf model: the format string must be concrete. Supported with symbolic arguments:
// %s (string / []byte), %d %x %0Nx %0Nd (integers and *big.Int; the number of digits is a forked
// choice, bounded), %v for strings. Anything else yields the opaque text "<fmt>".

func hexDigitChar(nib *Term) *Term { // nib: 4-bit
	n8 := ZeroExt(4, nib)
	return Ite(BVCmp("bvult", n8, BVConstU(8, 10)), BVBin("bvadd", n8, BVConstU(8, '0')), BVBin("bvadd", n8, BVConstU(8, 'a'-10)))
}

// formatInt renders a non-negative integer value (Int term v) in the given base with minimum width
// (zero padded); forks over the digit count up to maxDigits.
func (in *Interp) formatInt(v *Term, base int, width int, zero bool) Str {
	if v.IsConst() {
		s := v.Val.Text(base)
		for len(s) < width {
			if zero {
				s = "0" + s
			} else {
				s = " " + s
			}
		}
		return concreteStr(s)
	}
	if !in.fmtExact {
		panic(fmtOpaque{})
	}
	maxDigits := 20
	if base == 16 {
		maxDigits = 16
	}
	// negative values are not supported symbolically
	if in.ctx.Branch(IntCmp("<", v, IntConst(big.NewInt(0)))) {
		in.fail("formatting a possibly negative symbolic integer")
	}
	b := big.NewInt(int64(base))
	d := 1
	if width > 1 && zero {
		d = width // fewer digits than the zero-padded width print the same text
	}
	for ; d < maxDigits; d++ {
		lim := IntConst(new(big.Int).Exp(b, big.NewInt(int64(d)), nil))
		if in.ctx.Branch(IntCmp("<", v, lim)) {
			break
		}
	}
	if d == maxDigits {
		in.ctx.ex.BoundHits++
	}
	out := make([]*Term, 0, d)
	if base == 16 {
		bv := intToBV(4*d, v)
		for i := d - 1; i >= 0; i-- {
			out = append(out, hexDigitChar(Extract(4*i+3, 4*i, bv)))
		}
	} else {
		// decimal digits: q_i = (v div 10^i) mod 10
		for i := d - 1; i >= 0; i-- {
			p := IntConst(new(big.Int).Exp(b, big.NewInt(int64(i)), nil))
			dig := mk("mod", -1, mk("div", -1, v, p), IntConst(b))
			out = append(out, BVBin("bvadd", intToBV(8, dig), BVConstU(8, '0')))
		}
	}
	for len(out) < width {
		pad := byte(' ')
		if zero {
			pad = '0'
		}
		out = append([]*Term{BVConstU(8, uint64(pad))}, out...)
	}
	return Str{out}
}

func (in *Interp) argAsInt(x Value) (*Term, bool) {
	if ifc, ok := x.(Iface); ok {
		x = ifc.V
		if ifc.T != nil {
			if t, ok := x.(*Term); ok && t.W > 0 {
				_, sg, _ := intWidth(ifc.T)
				if sg {
					return bvToIntS(t), true
				}
				return bvToIntU(t), true
			}
		}
	}
	switch v := x.(type) {
	case *Value:
		if v != nil {
			if b, ok := (*v).(BigInt); ok {
				return b.T, true
			}
		}
	case BigInt:
		return v.T, true
	}
	return nil, false
}

func (in *Interp) argAsStr(x Value) (Str, bool) {
	if ifc, ok := x.(Iface); ok {
		x = ifc.V
	}
	switch v := x.(type) {
	case Str:
		return v, true
	case Slice:
		b := make([]*Term, len(v.A))
		for i, e := range v.A {
			t, ok := e.(*Term)
			if !ok || t.W != 8 {
				return Str{}, false
			}
			b[i] = t
		}
		return Str{b}, true
	}
	return Str{}, false
}

type fmtOpaque struct{}

// sprintf: symbolic integers are rendered digit by digit (forking on the digit count) only when the
// harness asked for it with verifFmtExact(true); otherwise the text is opaque ("<fmt>"): log and
// error messages must not fork paths.
func (in *Interp) sprintf(format string, args []Value) (res Str) {
	defer func() {
		if r := recover(); r != nil {
			if _, ok := r.(fmtOpaque); ok {
				res = concreteStr("<fmt>")
				return
			}
			panic(r)
		}
	}()
	var out []*Term
	ai := 0
	fail := false
	for i := 0; i < len(format); i++ {
		c := format[i]
		if c != '%' {
			out = append(out, BVConstU(8, uint64(c)))
			continue
		}
		i++
		if i >= len(format) {
			break
		}
		if format[i] == '%' {
			out = append(out, BVConstU(8, '%'))
			continue
		}
		zero := false
		width := 0
		if format[i] == '0' {
			zero = true
			i++
		}
		for i < len(format) && format[i] >= '0' && format[i] <= '9' {
			width = width*10 + int(format[i]-'0')
			i++
		}
		if i >= len(format) || ai >= len(args) {
			fail = true
			break
		}
		verb := format[i]
		arg := args[ai]
		ai++
		switch verb {
		case 'd', 'x':
			v, ok := in.argAsInt(arg)
			if !ok {
				if s, ok2 := in.argAsStr(arg); ok2 && verb == 'x' { // %x of bytes/string
					for _, b := range s.B {
						out = append(out, hexDigitChar(Extract(7, 4, b)), hexDigitChar(Extract(3, 0, b)))
					}
					continue
				}
				fail = true
				break
			}
			base := 10
			if verb == 'x' {
				base = 16
			}
			out = append(out, in.formatInt(v, base, width, zero).B...)
		case 's', 'v':
			if s, ok := in.argAsStr(arg); ok {
				out = append(out, s.B...)
			} else if v, ok := in.argAsInt(arg); ok && verb == 'v' {
				out = append(out, in.formatInt(v, 10, width, zero).B...)
			} else {
				fail = true
			}
		default:
			fail = true
		}
		if fail {
			break
		}
	}
	if fail {
		return concreteStr("<fmt>")
	}
	return Str{out}
}

func initFmt() {
	intrinsics["fmt.Sprintf"] = func(in *Interp, fn *ssa.Function, a []Value) Value {
		f, ok := a[0].(Str).Concrete()
		if !ok {
			return concreteStr("<fmt>")
		}
		var args []Value
		if len(a) > 1 {
			if s, ok := a[1].(Slice); ok {
				args = s.A
			}
		}
		if !strings.Contains(f, "%") {
			return concreteStr(f)
		}
		return in.sprintf(f, args)
	}
}

var _ = fmt.Sprint
