package main

import (
	"math/big"

	"golang.org/x/tools/go/ssa"
)

func bigOf(v Value) *Term {
	p := v.(*Value)
	if p == nil {
		panic(goPanic{concreteStr("nil *big.Int dereference")})
	}
	return (*p).(BigInt).T
}

func newBig(t *Term) Value {
	var v Value = BigInt{t}
	return &v
}

func bvToIntU(x *Term) *Term {
	if x.IsConst() {
		return IntConst(x.Val)
	}
	return mk("bv2nat", -1, x)
}

func bvToIntS(x *Term) *Term {
	if x.IsConst() {
		return IntConst(signed(x.W, x.Val))
	}
	neg := BVCmp("bvslt", x, BVConstU(x.W, 0))
	two := IntConst(new(big.Int).Lsh(big.NewInt(1), uint(x.W)))
	return Ite(neg, IntBin("-", mk("bv2nat", -1, x), two), mk("bv2nat", -1, x))
}

// intToBV: x mod 2^w as a bit-vector. Reduction modulo 2^w is a ring homomorphism, so sums, differences
// and products are translated structurally; this keeps int2bv (which the solvers handle poorly) out of
// the common conversions big.Int -> (u)int64.
func intToBV(w int, x *Term) *Term {
	if x.IsConst() {
		return BVConst(w, x.Val)
	}
	switch x.Op {
	case "+":
		return BVBin("bvadd", intToBV(w, x.Args[0]), intToBV(w, x.Args[1]))
	case "-":
		if len(x.Args) == 2 {
			return BVBin("bvsub", intToBV(w, x.Args[0]), intToBV(w, x.Args[1]))
		}
	case "*":
		return BVBin("bvmul", intToBV(w, x.Args[0]), intToBV(w, x.Args[1]))
	case "ite":
		return Ite(x.Args[0], intToBV(w, x.Args[1]), intToBV(w, x.Args[2]))
	case "bv2nat":
		a := x.Args[0]
		switch {
		case a.W == w:
			return a
		case a.W > w:
			return Extract(w-1, 0, a)
		default:
			return ZeroExt(w-a.W, a)
		}
	}
	return mk("int2bv", w, x)
}

// hasInt2bv reports whether the bit-vector term still contains an int2bv (non-structural) conversion.
func hasInt2bv(t *Term, seen map[*Term]bool) bool {
	if seen[t] {
		return false
	}
	seen[t] = true
	if t.Op == "int2bv" {
		return true
	}
	for _, a := range t.Args {
		if hasInt2bv(a, seen) {
			return true
		}
	}
	return false
}

func powerOfTwo(v *big.Int) int {
	if v.Sign() <= 0 || new(big.Int).And(v, new(big.Int).Sub(v, big.NewInt(1))).Sign() != 0 {
		return -1
	}
	return v.BitLen() - 1
}

func setRecv(a []Value, t *Term) Value {
	p := a[0].(*Value)
	*p = BigInt{t}
	return p
}

func initBig() {
	bin := func(op string) intrinsic {
		return func(in *Interp, fn *ssa.Function, a []Value) Value {
			return setRecv(a, IntBin(op, bigOf(a[1]), bigOf(a[2])))
		}
	}
	intrinsics["math/big.NewInt"] = func(in *Interp, fn *ssa.Function, a []Value) Value { return newBig(bvToIntS(a[0].(*Term))) }
	intrinsics["(*math/big.Int).Add"] = bin("+")
	intrinsics["(*math/big.Int).Sub"] = bin("-")
	intrinsics["(*math/big.Int).Mul"] = bin("*")
	intrinsics["(*math/big.Int).Div"] = func(in *Interp, fn *ssa.Function, a []Value) Value {
		y := bigOf(a[2])
		in.ctx.PanicIf(IntCmp("=", y, IntConst(big.NewInt(0))), "division by zero (big.Int)")
		if x := bigOf(a[1]); x.IsConst() && y.IsConst() {
			return setRecv(a, IntConst(new(big.Int).Div(x.Val, y.Val))) // Euclidean, as SMT-LIB div
		}
		return setRecv(a, mk("div", -1, bigOf(a[1]), y))
	}
	intrinsics["(*math/big.Int).Mod"] = func(in *Interp, fn *ssa.Function, a []Value) Value {
		y := bigOf(a[2])
		in.ctx.PanicIf(IntCmp("=", y, IntConst(big.NewInt(0))), "division by zero (big.Int)")
		if x := bigOf(a[1]); x.IsConst() && y.IsConst() {
			return setRecv(a, IntConst(new(big.Int).Mod(x.Val, y.Val)))
		}
		if y.IsConst() && !bigOf(a[1]).IsConst() {
			// x mod 2^k for an x built from bit-vectors: stay in the bit-vector theory (Euclidean mod = low k bits)
			if k := powerOfTwo(y.Val); k > 0 && k <= 256 {
				bv := intToBV(k, bigOf(a[1]))
				if !hasInt2bv(bv, map[*Term]bool{}) {
					return setRecv(a, bvToIntU(bv))
				}
			}
		}
		return setRecv(a, mk("mod", -1, bigOf(a[1]), y))
	}
	intrinsics["(*math/big.Int).Set"] = func(in *Interp, fn *ssa.Function, a []Value) Value { return setRecv(a, bigOf(a[1])) }
	intrinsics["(*math/big.Int).SetUint64"] = func(in *Interp, fn *ssa.Function, a []Value) Value { return setRecv(a, bvToIntU(a[1].(*Term))) }
	intrinsics["(*math/big.Int).SetInt64"] = func(in *Interp, fn *ssa.Function, a []Value) Value { return setRecv(a, bvToIntS(a[1].(*Term))) }
	toU64 := func(in *Interp, fn *ssa.Function, a []Value) Value {
		x := bigOf(a[0])
		t := intToBV(64, x)
		if t.Op != "int2bv" {
			return t
		}
		// no structural translation (quotients, free integer variables): name the low 64 bits by a fresh
		// bit-vector u with bv2nat(u) = x mod 2^64, which the arithmetic solver handles far better than int2bv
		u := in.ctx.NewVar("low64", 64)
		in.ctx.add(IntCmp("=", mk("bv2nat", -1, u), mk("mod", -1, x, IntConst(new(big.Int).Lsh(big.NewInt(1), 64)))))
		return u
	}
	intrinsics["(*math/big.Int).Uint64"] = toU64
	intrinsics["(*math/big.Int).Int64"] = toU64
	intrinsics["(*math/big.Int).Sign"] = func(in *Interp, fn *ssa.Function, a []Value) Value {
		x := bigOf(a[0])
		z := IntConst(big.NewInt(0))
		return Ite(IntCmp("<", x, z), BVConstI(64, -1), Ite(IntCmp("=", x, z), BVConstI(64, 0), BVConstI(64, 1)))
	}
	intrinsics["(*math/big.Int).Cmp"] = func(in *Interp, fn *ssa.Function, a []Value) Value {
		x, y := bigOf(a[0]), bigOf(a[1])
		return Ite(IntCmp("<", x, y), BVConstI(64, -1), Ite(IntCmp("=", x, y), BVConstI(64, 0), BVConstI(64, 1)))
	}
	intrinsics["(*math/big.Int).Lsh"] = func(in *Interp, fn *ssa.Function, a []Value) Value {
		n := uint(concInt(a[2]))
		return setRecv(a, IntBin("*", bigOf(a[1]), IntConst(new(big.Int).Lsh(big.NewInt(1), n))))
	}
	intrinsics["(*math/big.Int).SetBytes"] = func(in *Interp, fn *ssa.Function, a []Value) Value {
		b := a[1].(Slice)
		if len(b.A) == 0 {
			return setRecv(a, IntConst(big.NewInt(0)))
		}
		var cat *Term
		for _, e := range b.A {
			if cat == nil {
				cat = e.(*Term)
			} else {
				cat = Concat(cat, e.(*Term))
			}
		}
		return setRecv(a, bvToIntU(cat))
	}
	intrinsics["(*math/big.Int).Exp"] = func(in *Interp, fn *ssa.Function, a []Value) Value {
		x, y := bigOf(a[1]), bigOf(a[2])
		if !y.IsConst() || (a[3].(*Value) != nil) {
			in.fail("big.Int.Exp with symbolic exponent or modulus")
		}
		if x.IsConst() {
			return setRecv(a, IntConst(new(big.Int).Exp(x.Val, y.Val, nil)))
		}
		n := int(y.Val.Int64())
		if n > 8 {
			in.fail("big.Int.Exp: symbolic base with exponent > 8")
		}
		r := IntConst(big.NewInt(1))
		for i := 0; i < n; i++ {
			r = IntBin("*", r, x)
		}
		return setRecv(a, r)
	}
	intrinsics["(*math/big.Int).BitLen"] = func(in *Interp, fn *ssa.Function, a []Value) Value {
		x := bigOf(a[0])
		if x.IsConst() {
			return BVConstI(64, int64(new(big.Int).Abs(x.Val).BitLen()))
		}
		// magnitudes that are bit-vectors underneath: the bit length is a term, no fork
		if x.Op == "bv2nat" {
			return bitsLen(x.Args[0])
		}
		if x.Op == "-" && len(x.Args) == 2 && x.Args[0].IsConst() && x.Args[0].Val.Sign() == 0 && x.Args[1].Op == "bv2nat" {
			return bitsLen(x.Args[1].Args[0])
		}
		// |x| < 2^n for the smallest n: forked over the feasible bit lengths (bounded)
		ax := Ite(IntCmp("<", x, IntConst(big.NewInt(0))), IntBin("-", IntConst(big.NewInt(0)), x), x)
		const maxBits = 96
		n := 0
		for ; n <= maxBits; n++ {
			if in.ctx.Branch(IntCmp("<", ax, IntConst(new(big.Int).Lsh(big.NewInt(1), uint(n))))) {
				break
			}
		}
		if n > maxBits {
			in.ctx.ex.BoundHits++
			panic(abortPath{"big.Int.BitLen beyond the modelled bound"})
		}
		return BVConstI(64, int64(n))
	}
	intrinsics["(*math/big.Int).Neg"] = func(in *Interp, fn *ssa.Function, a []Value) Value {
		return setRecv(a, IntBin("-", IntConst(big.NewInt(0)), bigOf(a[1])))
	}
	intrinsics["(*math/big.Int).Abs"] = func(in *Interp, fn *ssa.Function, a []Value) Value {
		x := bigOf(a[1])
		return setRecv(a, Ite(IntCmp("<", x, IntConst(big.NewInt(0))), IntBin("-", IntConst(big.NewInt(0)), x), x))
	}
	intrinsics["(*math/big.Int).IsUint64"] = func(in *Interp, fn *ssa.Function, a []Value) Value {
		x := bigOf(a[0])
		return And(IntCmp(">=", x, IntConst(big.NewInt(0))), IntCmp("<", x, IntConst(new(big.Int).Lsh(big.NewInt(1), 64))))
	}
	intrinsics["(*math/big.Int).IsInt64"] = func(in *Interp, fn *ssa.Function, a []Value) Value {
		x := bigOf(a[0])
		lim := new(big.Int).Lsh(big.NewInt(1), 63)
		return And(IntCmp(">=", x, IntConst(new(big.Int).Neg(lim))), IntCmp("<", x, IntConst(lim)))
	}
	intrinsics["(*math/big.Int).SetString"] = func(in *Interp, fn *ssa.Function, a []Value) Value {
		str, ok := a[1].(Str).Concrete()
		if !ok {
			in.fail("big.Int.SetString of a symbolic string")
		}
		z, good := new(big.Int).SetString(str, int(concInt(a[2])))
		if !good {
			return Tuple{(*Value)(nil), tFalse}
		}
		return Tuple{setRecv(a, IntConst(z)), tTrue}
	}
	intrinsics["(*math/big.Int).String"] = func(in *Interp, fn *ssa.Function, a []Value) Value {
		p := a[0].(*Value)
		if p == nil {
			return concreteStr("<nil>")
		}
		x := bigOf(a[0])
		if x.IsConst() {
			return concreteStr(x.Val.String())
		}
		if !in.fmtExact {
			return concreteStr("<big>")
		}
		return in.formatInt(x, 10, 0, false)
	}
	intrinsics["(*math/big.Int).Bytes"] = func(in *Interp, fn *ssa.Function, a []Value) Value {
		x := bigOf(a[0])
		if x.IsConst() {
			b := new(big.Int).Abs(x.Val).Bytes()
			out := make([]Value, len(b))
			for i := range b {
				out[i] = BVConstU(8, uint64(b[i]))
			}
			return Slice{A: out}
		}
		// symbolic: |x| as n big-endian bytes, n = forked over the feasible byte lengths (bounded)
		ax := Ite(IntCmp("<", x, IntConst(big.NewInt(0))), IntBin("-", IntConst(big.NewInt(0)), x), x)
		const maxLen = 12
		n := 0
		for ; n <= maxLen; n++ {
			lim := IntConst(new(big.Int).Lsh(big.NewInt(1), uint(8*n)))
			if in.ctx.Branch(IntCmp("<", ax, lim)) {
				break
			}
		}
		if n > maxLen {
			in.ctx.ex.BoundHits++
			panic(abortPath{"big.Int.Bytes longer than the modelled bound"})
		}
		out := make([]Value, n)
		if n > 0 {
			bv := intToBV(8*n, ax)
			if hasInt2bv(bv, map[*Term]bool{}) {
				// no structural translation: name the magnitude (0 <= ax < 2^(8n) on this path) by a fresh bit-vector
				bv = in.ctx.NewVar("mag", 8*n)
				in.ctx.add(IntCmp("=", mk("bv2nat", -1, bv), ax))
			}
			for i := 0; i < n; i++ {
				hi := 8*(n-i) - 1
				out[i] = Extract(hi, hi-7, bv)
			}
		}
		return Slice{A: out}
	}
}
