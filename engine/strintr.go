package main

import "golang.org/x/tools/go/ssa"

func indexByteTerm(s Str, c *Term, last bool) *Term {
	r := BVConstI(64, -1)
	if last {
		for i := 0; i < len(s.B); i++ {
			r = Ite(BVCmp("=", s.B[i], c), BVConstI(64, int64(i)), r)
		}
		return r
	}
	for i := len(s.B) - 1; i >= 0; i-- {
		r = Ite(BVCmp("=", s.B[i], c), BVConstI(64, int64(i)), r)
	}
	return r
}

func mapCase(s Str, lo, hi byte, delta int64) Str {
	out := make([]*Term, len(s.B))
	for i, b := range s.B {
		in := And(BVCmp("bvuge", b, BVConstU(8, uint64(lo))), BVCmp("bvule", b, BVConstU(8, uint64(hi))))
		out[i] = Ite(in, BVBin("bvadd", b, BVConstI(8, delta)), b)
	}
	return Str{out}
}

func initStrIntr() {
	ib := func(in *Interp, fn *ssa.Function, a []Value) Value { return indexByteTerm(a[0].(Str), a[1].(*Term), false) }
	intrinsics["strings.IndexByte"] = ib
	intrinsics["internal/stringslite.IndexByte"] = ib
	intrinsics["internal/bytealg.IndexByteString"] = ib
	intrinsics["strings.LastIndexByte"] = func(in *Interp, fn *ssa.Function, a []Value) Value {
		return indexByteTerm(a[0].(Str), a[1].(*Term), true)
	}
	intrinsics["strings.ToLower"] = func(in *Interp, fn *ssa.Function, a []Value) Value { return mapCase(a[0].(Str), 'A', 'Z', 32) }
	intrinsics["strings.ToUpper"] = func(in *Interp, fn *ssa.Function, a []Value) Value { return mapCase(a[0].(Str), 'a', 'z', -32) }
}
