package main

import (
	"strconv"
	"strings"

	"golang.org/x/tools/go/ssa"
)

func indexByteTerm(s Str, c *Term, last bool) *Term {
	r := BVConstI(64, -1)
	if last {
		for i := 0; i < len(s.B); i++ {
			r = Ite(BVCmp("=", s.B[i], c), BVConstI(64, int64(i)), r)
		}
		return r
	}
	for i := len(s.B) - 1; i >= 0; i-- {
		r = Ite(BVCmp("=", s.B[i], c), BVConstI(64, int64(i)), r)
	}
	return r
}

func mapCase(s Str, lo, hi byte, delta int64) Str {
	out := make([]*Term, len(s.B))
	for i, b := range s.B {
		in := And(BVCmp("bvuge", b, BVConstU(8, uint64(lo))), BVCmp("bvule", b, BVConstU(8, uint64(hi))))
		out[i] = Ite(in, BVBin("bvadd", b, BVConstI(8, delta)), b)
	}
	return Str{out}
}

// strconv integer formatting: exact rendering (forks on the digit count only) instead of interpreting
// strconv's table-driven loops over a symbolic value
func (in *Interp) strconvFormat(v *Term, base int64) Str {
	if base != 10 && base != 16 {
		in.fail("strconv formatting in base %d", base)
	}
	saved := in.fmtExact
	in.fmtExact = true
	defer func() { in.fmtExact = saved }()
	return in.formatInt(v, int(base), 0, false)
}

func initStrIntr() {
	intrinsics["strconv.FormatUint"] = func(in *Interp, fn *ssa.Function, a []Value) Value {
		return in.strconvFormat(bvToIntU(a[0].(*Term)), concInt(a[1]))
	}
	intrinsics["strconv.FormatInt"] = func(in *Interp, fn *ssa.Function, a []Value) Value {
		return in.strconvFormat(bvToIntS(a[0].(*Term)), concInt(a[1]))
	}
	intrinsics["strconv.Itoa"] = func(in *Interp, fn *ssa.Function, a []Value) Value {
		return in.strconvFormat(bvToIntS(a[0].(*Term)), 10)
	}
	appendNum := func(signed bool) intrinsic {
		return func(in *Interp, fn *ssa.Function, a []Value) Value {
			dst := a[0].(Slice)
			var v *Term
			if signed {
				v = bvToIntS(a[1].(*Term))
			} else {
				v = bvToIntU(a[1].(*Term))
			}
			s := in.strconvFormat(v, concInt(a[2]))
			out := make([]Value, 0, len(dst.A)+len(s.B))
			out = append(out, dst.A...)
			for _, b := range s.B {
				out = append(out, b)
			}
			return Slice{A: out}
		}
	}
	intrinsics["strconv.AppendUint"] = appendNum(false)
	intrinsics["strconv.AppendInt"] = appendNum(true)
	intrinsics["strconv.FormatFloat"] = func(in *Interp, fn *ssa.Function, a []Value) Value {
		f := a[0].(Float)
		if f.T != nil {
			in.fail("strconv.FormatFloat of a symbolic float")
		}
		return concreteStr(strconv.FormatFloat(f.F, byte(concInt(a[1])), int(concInt(a[2])), int(concInt(a[3]))))
	}
	intrinsics["strings.Contains"] = func(in *Interp, fn *ssa.Function, a []Value) Value {
		s1, ok1 := a[0].(Str).Concrete()
		s2, ok2 := a[1].(Str).Concrete()
		if !ok1 || !ok2 {
			in.fail("strings.Contains of a symbolic string")
		}
		return BoolConst(strings.Contains(s1, s2))
	}
	intrinsics["strings.HasPrefix"] = func(in *Interp, fn *ssa.Function, a []Value) Value {
		s, p := a[0].(Str), a[1].(Str)
		if len(p.B) > len(s.B) {
			return tFalse
		}
		return strEq(Str{s.B[:len(p.B)]}, p)
	}
	intrinsics["strings.HasSuffix"] = func(in *Interp, fn *ssa.Function, a []Value) Value {
		s, p := a[0].(Str), a[1].(Str)
		if len(p.B) > len(s.B) {
			return tFalse
		}
		return strEq(Str{s.B[len(s.B)-len(p.B):]}, p)
	}
	intrinsics["strings.Split"] = func(in *Interp, fn *ssa.Function, a []Value) Value {
		s1, ok1 := a[0].(Str).Concrete()
		s2, ok2 := a[1].(Str).Concrete()
		if !ok1 || !ok2 {
			in.fail("strings.Split of a symbolic string")
		}
		parts := strings.Split(s1, s2)
		out := make([]Value, len(parts))
		for i, p := range parts {
			out[i] = concreteStr(p)
		}
		return Slice{A: out}
	}
	ib := func(in *Interp, fn *ssa.Function, a []Value) Value { return indexByteTerm(a[0].(Str), a[1].(*Term), false) }
	intrinsics["strings.IndexByte"] = ib
	intrinsics["internal/stringslite.IndexByte"] = ib
	intrinsics["internal/bytealg.IndexByteString"] = ib
	intrinsics["strings.LastIndexByte"] = func(in *Interp, fn *ssa.Function, a []Value) Value {
		return indexByteTerm(a[0].(Str), a[1].(*Term), true)
	}
	intrinsics["strings.ToLower"] = func(in *Interp, fn *ssa.Function, a []Value) Value { return mapCase(a[0].(Str), 'A', 'Z', 32) }
	intrinsics["strings.ToUpper"] = func(in *Interp, fn *ssa.Function, a []Value) Value { return mapCase(a[0].(Str), 'a', 'z', -32) }
}
