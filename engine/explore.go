package main

import (
	"os"
	"sync"
	"fmt"
	"math/big"
	"sort"
	"strings"
	"time"

	"golang.org/x/tools/go/ssa"
)

type Violation struct {
	Msg   string
	Model map[string]*big.Int
	Path  []int64
	Sched []int64
}

type Explorer struct {
	prog      *ssa.Program
	entry     *ssa.Function
	solver    *Solver
	q         *workQueue
	Paths     int
	Cut       int
	Asserts   int
	Unknown   int
	Viol      []Violation
	Reached   map[string]int
	Errors    map[string]int
	Panics    map[string]int
	FuncsHit  map[string]int
	MaxPaths  int
	Steps     int
	ConcCap   int
	BoundHits int
	InitFailures map[string]string
	ForkSites map[string]int
	Merges int
	Notes  map[string]int
	Params map[string]int64
	Known  map[string]string
	AssertQueries    int
	PathsWithAsserts int
	Samples []map[string]string
	Summaries map[string]*ssa.Function
	ExactRechecks int
	UnknownSites  map[string]int
	QuerySites    map[string]int
	SimpDecided   int
	AbsDecided    int
}

type PathCtx struct {
	ex        *Explorer
	prefix    []int64
	pos       int
	decisions []int64
	pc        []*Term
	synced    int
	fresh     bool // solver needs reset for this path
	quiet     bool
	vars      []*Term
	varSeq    map[string]int
	nAsserts  int
	facts     facts
	sched     []int64 // scheduling choices (explored-mode threads), for native replay
	curFrame  *frame
	hashApps  []hashApp
	abs       *absInt
}

func (c *PathCtx) sync() {
	s := c.ex.solver
	if c.fresh {
		s.Reset()
		c.fresh = false
		c.synced = 0
	}
	for ; c.synced < len(c.pc); c.synced++ {
		s.Assert(c.pc[c.synced])
	}
}

func (c *PathCtx) add(t *Term) {
	c.pc = append(c.pc, t)
	if !noSimp {
		c.facts.learn(t)
	}
	if !noAbs {
		if c.abs == nil {
			c.abs = newAbsInt()
		}
		c.abs.learn(t)
	}
}

var noAbs = os.Getenv("GOSX_NOABS") != ""

// absDecide: 1 / 2 when the condition is true / false for every value inside the learned ranges
func (c *PathCtx) absDecide(cond *Term) int8 {
	if noAbs {
		return 3
	}
	if c.abs == nil {
		c.abs = newAbsInt()
	}
	return c.abs.triOf(cond)
}

var noSimp = false

func (c *PathCtx) simp(t *Term) *Term {
	if noSimp || c.facts.n == 0 || t.IsConst() {
		return t
	}
	return c.facts.simp(t, map[*Term]*Term{})
}

func (c *PathCtx) Branch(cond *Term) bool {
	if cond.IsConst() {
		return cond.IsTrue()
	}
	// deterministic given the path condition, so it is applied identically when a prefix is replayed
	if sc := c.simp(cond); sc.IsConst() {
		c.ex.SimpDecided++
		return sc.IsTrue()
	}
	if r := c.absDecide(cond); r != 3 {
		c.ex.AbsDecided++
		return r == 1
	}
	if c.pos < len(c.prefix) {
		d := c.prefix[c.pos]
		c.pos++
		c.decisions = append(c.decisions, d)
		if d == 0 {
			c.add(cond)
			return true
		}
		c.add(Not(cond))
		return false
	}
	c.pos++
	c.sync()
	s := c.ex.solver
	if c.ex.QuerySites != nil && c.curFrame != nil {
		pos := c.curFrame.fn.Prog.Fset.Position(c.curFrame.cur.Pos())
		c.ex.QuerySites[fmt.Sprintf("%s @%s:%d", c.curFrame.fn.Name(), pos.Filename[strings.LastIndex(pos.Filename, "/")+1:], pos.Line)]++
	}
	// The path condition is satisfiable (invariant), so "pc and not cond unsat" alone proves that the
	// true side is the only feasible one, and vice versa. The first query runs with a short time-out:
	// a valid condition often has a hard sat side and a trivial unsat side.
	rt := s.CheckT(cond, 1500)
	s.Pop()
	rf := "sat"
	if rt != "unsat" {
		rf = s.Check(Not(cond))
		s.Pop()
		if rf != "unsat" && rt == "unknown" {
			rt = s.Check(cond)
			s.Pop()
		}
		if rf == "unsat" {
			rt = "sat"
		}
	}
	if rt == "unknown" || rf == "unknown" {
		c.ex.Unknown++
		where := "branch"
		if c.curFrame != nil {
			where = "branch in " + c.curFrame.fn.Name()
		}
		c.ex.noteUnknown(where)
	}
	tOK, fOK := rt != "unsat", rf != "unsat"
	switch {
	case tOK && fOK:
		if c.ex.ForkSites != nil && c.curFrame != nil {
			pos := c.curFrame.fn.Prog.Fset.Position(c.curFrame.cur.Pos())
			c.ex.ForkSites[fmt.Sprintf("%s @%s:%d", c.curFrame.fn.Name(), pos.Filename[strings.LastIndex(pos.Filename, "/")+1:], pos.Line)]++
		}
		alt := append(append([]int64{}, c.decisions...), 1)
		c.ex.q.push(alt)
		c.decisions = append(c.decisions, 0)
		c.add(cond)
		return true
	case tOK:
		c.decisions = append(c.decisions, 0)
		c.add(cond)
		return true
	case fOK:
		c.decisions = append(c.decisions, 1)
		c.add(Not(cond))
		return false
	}
	panic(abortPath{"infeasible path condition"})
}

func (c *PathCtx) PanicIf(cond *Term, msg string) {
	if cond.IsFalse() {
		return
	}
	if c.Branch(cond) {
		panic(goPanic{concreteStr(msg)})
	}
}

func (c *PathCtx) Concretize(t *Term, why string) int64 {
	if !noAbs && t.W > 0 && t.W <= 64 {
		if c.abs == nil {
			c.abs = newAbsInt()
		}
		if r := c.abs.iv(t); r.lo.Cmp(r.hi) == 0 {
			c.ex.AbsDecided++
			return signed(t.W, r.lo).Int64()
		}
	}
	if c.pos < len(c.prefix) {
		v := c.prefix[c.pos]
		c.pos++
		c.decisions = append(c.decisions, v)
		c.add(BVCmp("=", t, BVConstI(t.W, v)))
		return v
	}
	c.pos++
	c.sync()
	s := c.ex.solver
	var vals []int64
	tmp := Var(fmt.Sprintf("conc!%d", nextID()), t.W)
	s.Assert(BVCmp("=", tmp, t))
	block := tTrue
	for len(vals) <= c.ex.ConcCap {
		r := s.Check(block)
		if r != "sat" {
			s.Pop()
			if r == "unknown" {
				c.ex.Unknown++
			}
			break
		}
		m := s.Model([]*Term{tmp})
		s.Pop()
		v := signed(t.W, m[tmp.Name]).Int64()
		vals = append(vals, v)
		block = And(block, Not(BVCmp("=", t, BVConstI(t.W, v))))
	}
	if len(vals) > c.ex.ConcCap {
		c.ex.BoundHits++
		vals = vals[:c.ex.ConcCap]
	}
	if len(vals) == 0 {
		panic(abortPath{"infeasible at concretize " + why})
	}
	sort.Slice(vals, func(i, j int) bool { return vals[i] < vals[j] })
	for _, v := range vals[1:] {
		alt := append(append([]int64{}, c.decisions...), v)
		c.ex.q.push(alt)
	}
	c.decisions = append(c.decisions, vals[0])
	c.add(BVCmp("=", t, BVConstI(t.W, vals[0])))
	return vals[0]
}

// Choose forks over n alternatives without consulting the solver (scheduling choices).
func (c *PathCtx) Choose(n int) int {
	if c.pos < len(c.prefix) {
		v := c.prefix[c.pos]
		c.pos++
		c.decisions = append(c.decisions, v)
		c.sched = append(c.sched, v)
		return int(v)
	}
	c.pos++
	for v := 1; v < n; v++ {
		alt := append(append([]int64{}, c.decisions...), int64(v))
		c.ex.q.push(alt)
	}
	c.decisions = append(c.decisions, 0)
	c.sched = append(c.sched, 0)
	return 0
}

func (c *PathCtx) Assume(cond *Term) {
	if cond.IsTrue() {
		return
	}
	if cond.IsFalse() {
		panic(abortPath{"assume"})
	}
	c.add(cond)
	c.sync()
	if r := c.ex.solver.Check(nil); r == "unsat" {
		panic(abortPath{"assume"})
	}
}

func (c *PathCtx) Assert(cond *Term, msg string) {
	c.ex.Asserts++
	c.nAsserts++
	if cond.IsTrue() {
		return
	}
	// implied by facts / value ranges learned from the path condition: no solver call needed
	if sc := c.simp(cond); sc.IsTrue() {
		c.ex.SimpDecided++
		return
	}
	if c.absDecide(cond) == 1 {
		c.ex.AbsDecided++
		return
	}
	c.ex.AssertQueries++
	if c.ex.QuerySites != nil {
		c.ex.QuerySites["assert: "+msg]++
	}
	c.sync()
	s := c.ex.solver
	r := s.Check(Not(cond))
	if r == "sat" && s.UFMul && (len(s.pr.muls) > 0 || s.pr.ufDivDecl) {
		// the counterexample lives in the product abstraction: re-decide with exact multiplication
		s.Pop()
		s.UFMul = false
		s.Reset()
		for _, t := range c.pc {
			s.Assert(t)
		}
		r = s.Check(Not(cond))
		c.ex.ExactRechecks++
		if r != "sat" {
			s.Pop()
			s.UFMul = true
			c.fresh = true
			if r == "unknown" {
				c.ex.Unknown++
				c.ex.noteUnknown("exact recheck of assertion: " + msg)
			}
			return
		}
		m := s.Model(c.vars)
		s.Pop()
		s.UFMul = true
		c.fresh = true
		c.ex.Viol = append(c.ex.Viol, Violation{Msg: msg, Model: m, Path: append([]int64{}, c.decisions...), Sched: append([]int64{}, c.sched...)})
		c.add(cond)
		return
	}
	if r == "sat" {
		m := s.Model(c.vars)
		s.Pop()
		c.ex.Viol = append(c.ex.Viol, Violation{Msg: msg, Model: m, Path: append([]int64{}, c.decisions...), Sched: append([]int64{}, c.sched...)})
		c.add(cond)
		if cond.IsFalse() {
			panic(abortPath{"assert always false"})
		}
		c.sync()
		if c.ex.solver.Check(nil) == "unsat" {
			panic(abortPath{"assert always false"})
		}
		return
	}
	s.Pop()
	if r == "unknown" {
		c.ex.Unknown++
		c.ex.noteUnknown("assertion: " + msg)
	}
}

func (ex *Explorer) noteUnknown(where string) {
	if ex.UnknownSites == nil {
		ex.UnknownSites = map[string]int{}
	}
	ex.UnknownSites[where]++
}

func (c *PathCtx) NewVar(name string, w int) *Term {
	n := c.varSeq[name]
	c.varSeq[name] = n + 1
	v := Var(fmt.Sprintf("%s!%d", sanitize(name), n), w)
	c.vars = append(c.vars, v)
	return v
}

func sanitize(s string) string {
	return strings.Map(func(r rune) rune {
		if r >= 'a' && r <= 'z' || r >= 'A' && r <= 'Z' || r >= '0' && r <= '9' || r == '_' {
			return r
		}
		return '_'
	}, s)
}

func (ex *Explorer) Run() time.Duration {
	t0 := time.Now()
	for {
		p, ok := ex.q.pop()
		if !ok {
			break
		}
		ex.runPath(p)
		ex.q.done()
	}
	return time.Since(t0)
}

type workQueue struct {
	mu      sync.Mutex
	cond    *sync.Cond
	items   [][]int64
	active  int
	started int
	max     int
	dropped int
	deadline time.Time
	timedOut bool
}

func newWorkQueue(max int) *workQueue {
	q := &workQueue{max: max, items: [][]int64{nil}}
	q.cond = sync.NewCond(&q.mu)
	return q
}

func (q *workQueue) push(p []int64) {
	q.mu.Lock()
	q.items = append(q.items, p)
	q.mu.Unlock()
	q.cond.Signal()
}

func (q *workQueue) pop() ([]int64, bool) {
	q.mu.Lock()
	defer q.mu.Unlock()
	for len(q.items) == 0 && q.active > 0 {
		q.cond.Wait()
	}
	if len(q.items) == 0 {
		return nil, false
	}
	if !q.deadline.IsZero() && time.Now().After(q.deadline) {
		q.timedOut = true
	}
	if q.started >= q.max || q.timedOut {
		q.dropped += len(q.items)
		q.items = nil
		q.cond.Broadcast()
		return nil, false
	}
	p := q.items[len(q.items)-1]
	q.items = q.items[:len(q.items)-1]
	q.active++
	q.started++
	return p, true
}

func (q *workQueue) done() {
	q.mu.Lock()
	q.active--
	q.mu.Unlock()
	q.cond.Broadcast()
}

func (ex *Explorer) runPath(prefix []int64) {
	ctx := &PathCtx{ex: ex, prefix: prefix, fresh: true, varSeq: map[string]int{}}
	in := &Interp{prog: ex.prog, globals: map[*ssa.Global]*Value{}, inited: map[*ssa.Package]bool{}, ctx: ctx, funcsHit: ex.FuncsHit}
	in.threads = []*thread{{id: 0, resume: make(chan struct{})}}
	in.cur = in.threads[0]
	ex.Paths++
	defer func() {
		ex.Steps += in.steps
		r := recover()
		switch r := r.(type) {
		case nil:
		case abortPath:
			if r.why == "assume" {
				ex.Cut++
			} else if r.why == "assert always false" {
				// path ended at a violated assertion that cannot be assumed away
			} else {
				ex.Errors["abort: "+r.why]++
			}
		case goPanic:
			msg := "?"
			switch v := r.v.(type) {
			case Str:
				msg, _ = v.Concrete()
			case Iface:
				if s, ok := v.V.(Str); ok {
					msg, _ = s.Concrete()
				} else {
					msg = fmt.Sprintf("%v", v.T)
				}
			}
			if ctx.curFrame != nil && ctx.curFrame.cur != nil {
				pos := ctx.curFrame.fn.Prog.Fset.Position(ctx.curFrame.cur.Pos())
				msg += fmt.Sprintf(" [in %s %s:%d]", ctx.curFrame.fn.Name(), pos.Filename[strings.LastIndex(pos.Filename, "/")+1:], pos.Line)
			}
			ex.Panics[msg]++
		case solverTimeout:
			ex.Unknown++
			ex.Errors["solver watchdog: path abandoned (inconclusive)"]++
		case unsupported:
			ex.Errors["unsupported: "+r.what]++
		case engineBug:
			ex.Errors["ENGINE BUG: "+r.msg]++
		default:
			panic(r)
		}
	}()
	in.call(ex.entry, nil)
	in.runGoroutines()
	if ctx.nAsserts > 0 {
		ex.PathsWithAsserts++
	}
	if len(ex.Samples) < 2 && len(ctx.vars) > 0 {
		ctx.sync()
		if ex.solver.Check(nil) == "sat" {
			m := ex.solver.Model(ctx.vars)
			sm := map[string]string{}
			for k, v := range m {
				sm[k] = v.String()
			}
			sm["_path"] = fmt.Sprint(ctx.decisions)
			ex.Samples = append(ex.Samples, sm)
		}
	}
}
