package main

import (
	"bufio"
	"encoding/json"
	"fmt"
	"os"
	"path/filepath"
	"sort"
	"strconv"
	"strings"
	"time"

	"golang.org/x/tools/go/ssa"
)

type EntrySpec struct {
	Fn        string                      `json:"fn"`
	Tiers     []string                    `json:"tiers"`  // which tiers run it (default both)
	Params    map[string]map[string]int64 `json:"params"` // tier -> name -> value
	Sweep     map[string]map[string][]int64 `json:"sweep"` // tier -> name -> values (one run per value combination)
	TimeoutMs map[string]int              `json:"timeout_ms"`
	MaxPaths  int                         `json:"maxpaths"`
	Replay    string                      `json:"replay"` // "native" (default) | "race" | "model" (no native replay possible; reason in ReplayNote)
	ReplayNote string                     `json:"replay_note"`
	RaceTest  string                      `json:"race_test"` // for replay "race": native _test.go (TestVerifRace) run under go test -race
	Workers   int                         `json:"workers"`
	ConcCap   int                         `json:"conc_cap"`
	MaxWallS  map[string]int              `json:"max_wall_s"`
	UFMul     bool                        `json:"uf_mul"` // product abstraction for symbolic big.Int products (exact re-check of every counterexample)
	Summaries map[string]string           `json:"summaries"` // real function (ssa name) -> harness function stating its contract
}

type UnitSpec struct {
	Unit
	Entries []EntrySpec `json:"entries"`
}

type Spec struct {
	Property    string            `json:"property"`
	Units       []UnitSpec        `json:"units"`
	Bounds      map[string]string `json:"bounds"`
	Stubs       []string          `json:"stubs"`
	Assumptions []string          `json:"assumptions"`
	OutOfClaim  []string          `json:"out_of_claim"`
	Explanation string            `json:"explanation"`
}

type KnownFinding struct {
	Property  string   `json:"property"`
	ID        string   `json:"id"`
	Status    string   `json:"status"` // known | fixed
	WhatFails string   `json:"what_fails"`
	Entries   []string `json:"entries"`
	Commit    string   `json:"commit,omitempty"`
}

func loadKnown(prop string) []KnownFinding {
	f, err := os.Open(filepath.Join(verifRoot, "known_findings.jsonl"))
	if err != nil {
		return nil
	}
	defer f.Close()
	var out []KnownFinding
	sc := bufio.NewScanner(f)
	sc.Buffer(make([]byte, 1<<20), 1<<20)
	for sc.Scan() {
		l := strings.TrimSpace(sc.Text())
		if l == "" || strings.HasPrefix(l, "#") {
			continue
		}
		var k KnownFinding
		if json.Unmarshal([]byte(l), &k) == nil && k.Property == prop {
			out = append(out, k)
		}
	}
	return out
}

type entryReport struct {
	Fn             string            `json:"fn"`
	Pkg            string            `json:"pkg"`
	Params         map[string]int64  `json:"params,omitempty"`
	Pass           string            `json:"pass"` // main | known:<id>
	Paths          int               `json:"paths_feasible"`
	Cut            int               `json:"paths_cut_by_assume"`
	PathsAsserting int               `json:"paths_with_assertions"`
	Asserts        int               `json:"assertions_evaluated"`
	AssertQueries  int               `json:"assert_queries_discharged"`
	Queries        int               `json:"solver_queries"`
	SolverS        float64           `json:"solver_time_s"`
	WallS          float64           `json:"wall_s"`
	Steps          int               `json:"ssa_steps"`
	Merges         int               `json:"merges"`
	Unknown        int               `json:"inconclusive_queries"`
	BoundHits      int               `json:"bound_hits"`
	Violations     int               `json:"violating_paths"`
	Reached        map[string]int    `json:"reach_witnesses"`
	Errors         map[string]int    `json:"engine_errors,omitempty"`
	Panics         map[string]int    `json:"unexpected_panics,omitempty"`
	InitFailures   map[string]string `json:"init_failures,omitempty"`
	Notes          map[string]int    `json:"notes,omitempty"`
}

func hasTier(e EntrySpec, tier string) bool {
	if len(e.Tiers) == 0 {
		return true
	}
	for _, t := range e.Tiers {
		if t == tier {
			return true
		}
	}
	return false
}

// paramSets expands params + sweep into the list of concrete parameter maps to run.
func paramSets(e EntrySpec, tier string) []map[string]int64 {
	base := map[string]int64{}
	for k, v := range e.Params[tier] {
		base[k] = v
	}
	sets := []map[string]int64{base}
	sw := e.Sweep[tier]
	var names []string
	for k := range sw {
		names = append(names, k)
	}
	sort.Strings(names)
	for _, n := range names {
		var next []map[string]int64
		for _, s := range sets {
			for _, v := range sw[n] {
				c := map[string]int64{}
				for k, x := range s {
					c[k] = x
				}
				c[n] = v
				next = append(next, c)
			}
		}
		sets = next
	}
	return sets
}

func cmdCheck(args []string) int {
	if len(args) < 2 {
		fmt.Println("usage: gosx check <property> quick|thorough")
		return 2
	}
	prop, tier := args[0], args[1]
	t0 := time.Now()
	seed := 0
	if s := os.Getenv("VERIF_SEED"); s != "" {
		seed, _ = strconv.Atoi(s)
	}
	var spec Spec
	b, err := os.ReadFile(filepath.Join(verifRoot, "specs", prop+".json"))
	if err != nil {
		fmt.Println("ERROR: no spec for", prop, err)
		return 2
	}
	if err := json.Unmarshal(b, &spec); err != nil {
		fmt.Println("ERROR: bad spec:", err)
		return 2
	}
	known := loadKnown(prop)
	var units []Unit
	for _, u := range spec.Units {
		units = append(units, u.Unit)
	}
	ld, err := loadUnits(units)
	if err != nil {
		fmt.Printf("ERROR: cannot load/encode the packages of %s from %s: %v\n", prop, repoDir, err)
		return 2
	}
	fmt.Printf("[%s %s] loaded %d package(s) + SSA in %.1fs (repo %s)\n", prop, tier, len(units), ld.loadS, repoDir)

	exclude := map[string]string{}
	for _, k := range known {
		if k.Status == "known" {
			exclude[k.ID] = "exclude"
		}
	}
	var reports []entryReport
	funcs := map[string]bool{}
	var samples []interface{}
	violations := 0
	vacuous := 0
	inconclusive := 0
	var inconclusiveWhy []string
	knownLines := 0
	totalQueries, totalAssertQ, totalPaths, totalAssertingPaths := 0, 0, 0, 0
	solverS := 0.0
	firstReplay := ""
	outDir := filepath.Join(verifRoot, "out", "replay", prop)
	os.RemoveAll(outDir)

	runOne := func(u UnitSpec, e EntrySpec, params map[string]int64, knownMode map[string]string, pass string) (*runResult, entryReport) {
		fn := ld.pkgOf[u.Pkg].Func(e.Fn)
		if fn == nil {
			fmt.Printf("ERROR: entry %s not found in %s\n", e.Fn, u.Pkg)
			os.Exit(2)
		}
		to := e.TimeoutMs[tier]
		if to == 0 {
			to = 10000
			if tier == "thorough" {
				to = 60000
			}
		}
		w := e.Workers
		if w == 0 {
			w = 16
		}
		mw := e.MaxWallS[tier]
		if mw == 0 {
			mw = 300
			if tier == "thorough" {
				mw = 3000
			}
		}
		var sums map[string]*ssa.Function
		if len(e.Summaries) > 0 {
			sums = map[string]*ssa.Function{}
			for target, rep := range e.Summaries {
				rf := ld.pkgOf[u.Pkg].Func(rep)
				if rf == nil {
					fmt.Printf("ERROR: summary function %s not found in %s\n", rep, u.Pkg)
					os.Exit(2)
				}
				sums[target] = rf
			}
		}
		res := runEntry(ld.prog, fn, runOpts{Workers: w, MaxPaths: e.MaxPaths, TimeoutMs: to, Params: params, Known: knownMode, ConcCap: e.ConcCap, MaxWallS: mw, Summaries: sums, UFMul: e.UFMul})
		ex := res.ex
		r := entryReport{Fn: e.Fn, Pkg: u.Pkg, Params: params, Pass: pass, Paths: ex.Paths - ex.Cut, Cut: ex.Cut, PathsAsserting: ex.PathsWithAsserts, Asserts: ex.Asserts, AssertQueries: ex.AssertQueries,
			Queries: res.queries, SolverS: res.solverTime.Seconds(), WallS: res.wall.Seconds(), Steps: ex.Steps, Merges: ex.Merges, Unknown: ex.Unknown, BoundHits: ex.BoundHits,
			Violations: len(ex.Viol), Reached: ex.Reached, Errors: ex.Errors, Panics: ex.Panics, InitFailures: ex.InitFailures, Notes: ex.Notes}
		for f := range ex.FuncsHit {
			funcs[f] = true
		}
		totalQueries += res.queries
		totalAssertQ += ex.AssertQueries
		totalPaths += ex.Paths - ex.Cut
		totalAssertingPaths += ex.PathsWithAsserts
		solverS += res.solverTime.Seconds()
		for _, s := range ex.Samples {
			if len(samples) < 6 {
				samples = append(samples, map[string]interface{}{"entry": e.Fn, "params": params, "path_witness": s})
			}
		}
		fmt.Printf("[%s %s] %s %v pass=%s: paths=%d cut=%d assert-queries=%d violations=%d unknown=%d boundhits=%d queries=%d solver=%.1fs wall=%.1fs\n",
			prop, tier, e.Fn, params, pass, r.Paths, r.Cut, r.AssertQueries, r.Violations, r.Unknown, r.BoundHits, r.Queries, r.SolverS, r.WallS)
		return res, r
	}

	// groupViol keeps one representative per assertion label (shortest path first).
	groupViol := func(vs []Violation) map[string][]Violation {
		g := map[string][]Violation{}
		sort.SliceStable(vs, func(i, j int) bool { return len(vs[i].Path) < len(vs[j].Path) })
		for _, v := range vs {
			g[v.Msg] = append(g[v.Msg], v)
		}
		return g
	}

	// confirm replays up to 3 models of one assertion label natively; returns the replay dir of the first reproduced one.
	confirm := func(u UnitSpec, e EntrySpec, params map[string]int64, label string, vs []Violation, tag string) (string, string) {
		mode := e.Replay
		if mode == "" {
			mode = "native"
		}
		lastOut := ""
		for k, v := range vs {
			if k >= 3 {
				break
			}
			dir := filepath.Join(outDir, fmt.Sprintf("%s_%s_%d", e.Fn, tag, k))
			if mode == "model" {
				writeModelOnly(dir, e.Fn, v, params, e.ReplayNote)
				return dir, "model-only"
			}
			var ok bool
			var out string
			if mode == "race" {
				ok, out = replayRace(ld, u.Unit, e.Fn, v, params, dir, e.RaceTest)
			} else {
				ok, out = replayNativeMode(ld, u.Unit, e.Fn, v, params, dir, false)
			}
			lastOut = out
			if ok {
				return dir, "reproduced"
			}
		}
		return "", lastOut
	}

	for _, u := range spec.Units {
		for _, e := range u.Entries {
			if !hasTier(e, tier) {
				continue
			}
			for _, params := range paramSets(e, tier) {
				res, rep := runOne(u, e, params, exclude, "main")
				reports = append(reports, rep)
				ex := res.ex
				if ex.Unknown > 0 || ex.BoundHits > 0 || len(ex.Errors) > 0 || len(ex.Panics) > 0 || len(ex.InitFailures) > 0 {
					inconclusive++
					inconclusiveWhy = append(inconclusiveWhy, fmt.Sprintf("%s%v: unknown=%d boundhits=%d errors=%v panics=%v initfail=%v", e.Fn, params, ex.Unknown, ex.BoundHits, ex.Errors, ex.Panics, ex.InitFailures))
				}
				if len(ex.InitFailures) > 0 {
					// a package initialiser that could not be run leaves package variables (e.g. sentinel errors) nil:
					// nothing this run says can be trusted
					vacuous++
				}
				if len(ex.Reached) == 0 && len(ex.Viol) == 0 {
					vacuous++
					inconclusive++
					inconclusiveWhy = append(inconclusiveWhy, fmt.Sprintf("%s%v: VACUOUS - no reach witness", e.Fn, params))
				}
				g := groupViol(ex.Viol)
				var labels []string
				for l := range g {
					labels = append(labels, l)
				}
				sort.Strings(labels)
				for li, label := range labels {
					vs := g[label]
					dir, how := confirm(u, e, params, label, vs, fmt.Sprintf("v%d", li))
					if dir != "" {
						violations++
						if firstReplay == "" {
							firstReplay = dir
						}
						fmt.Printf("VIOLATION property=%s replay=%s\n", prop, dir)
						fmt.Printf("  assertion %q fails in %s%v on %d path(s); %s; model:%s\n", label, e.Fn, params, len(vs), how, modelString(vs[0].Model))
						if len(samples) < 12 {
							samples = append(samples, map[string]interface{}{"entry": e.Fn, "violated_assertion": label, "counterexample": modelStrings(vs[0].Model), "replay": how})
						}
					} else {
						inconclusive++
						inconclusiveWhy = append(inconclusiveWhy, fmt.Sprintf("%s: solver counterexample for %q did not reproduce natively (encoding suspect)", e.Fn, label))
						fmt.Printf("INCONCLUSIVE property=%s: counterexample for %q in %s did not reproduce natively; model:%s\n%s\n", prop, label, e.Fn, modelString(vs[0].Model), tail(how, 30))
					}
				}
			}
		}
	}

	// known findings: re-establish each one (region assumed), print KNOWN-FINDING if it is still there
	for _, k := range known {
		if k.Status != "known" {
			continue
		}
		still := false
		for _, u := range spec.Units {
			for _, e := range u.Entries {
				if !hasTier(e, tier) || !contains(k.Entries, e.Fn) {
					continue
				}
				mode := map[string]string{}
				for id := range exclude {
					mode[id] = "exclude"
				}
				mode[k.ID] = "assume"
				for _, params := range paramSets(e, tier) {
					if still {
						break
					}
					res, rep := runOne(u, e, params, mode, "known:"+k.ID)
					reports = append(reports, rep)
					if len(res.ex.Viol) > 0 {
						g := groupViol(res.ex.Viol)
						for label, vs := range g {
							dir, how := confirm(u, e, params, label, vs, "k"+k.ID)
							if dir != "" {
								still = true
								fmt.Printf("KNOWN-FINDING: property=%s %s [%s: %q in %s; %s; replay=%s]\n", prop, k.WhatFails, k.ID, label, e.Fn, how, dir)
								knownLines++
								if len(samples) < 12 {
									samples = append(samples, map[string]interface{}{"entry": e.Fn, "known_finding": k.ID, "violated_assertion": label, "counterexample": modelStrings(vs[0].Model)})
								}
								break
							}
						}
					}
				}
			}
		}
		if !still {
			fmt.Printf("[%s %s] known finding %s no longer reproduces (nothing printed for it)\n", prop, tier, k.ID)
		}
	}

	var fl []string
	var repoFns []string
	for f := range funcs {
		fl = append(fl, f)
		if strings.Contains(f, "github.com/ElrondNetwork/elrond-go/") && !strings.Contains(f, "Verif_") && !strings.Contains(f, ".verif") {
			repoFns = append(repoFns, f)
		}
	}
	sort.Strings(fl)
	sort.Strings(repoFns)
	wall := time.Since(t0).Seconds()
	expl := spec.Explanation
	if expl == "" {
		expl = "Bounded symbolic execution of the real functions (go/ssa of the current /repo tree, harness injected by overlay); every branch on a symbolic value and every assertion is decided by an SMT solver (z3 5.1) over all values inside the stated bounds; counterexamples are replayed natively before being reported."
	}
	cov := map[string]interface{}{
		"explanation":                  expl,
		"evaluations":                  totalQueries,
		"distinct_nontrivial":          totalAssertingPaths,
		"rule":                         "evaluations = SMT queries sent (branch feasibility + assertion queries); distinct_nontrivial = distinct feasible symbolic paths (distinct decision vectors) that evaluated at least one assertion; each path stands for all concrete inputs satisfying its path condition",
		"samples":                      samples,
		"functions_encoded_repo":       repoFns,
		"functions_encoded_total":      len(fl),
		"bounds":                       spec.Bounds[tier],
		"out_of_claim":                 spec.OutOfClaim,
		"paths_feasible":               totalPaths,
		"assert_queries_discharged":    totalAssertQ,
		"queries_total":                totalQueries,
		"solver_time_s":                solverS,
		"solver":                       "z3 5.1.0 (z3-new -in), one process per worker, engine-side watchdog",
		"inconclusive":                 inconclusive,
		"inconclusive_details":         inconclusiveWhy,
		"known_findings_reproduced":    knownLines,
		"entries":                      reports,
		"stubs":                        spec.Stubs,
		"load_and_ssa_build_s":         ld.loadS,
		"encoding_regenerated_from":    repoDir + " working tree at run time (go/packages + go/ssa, no cached model)",
		"exhaustive":                   false,
		"trusted_base":                 []string{"gosx SSA interpreter + intrinsics (/verif/engine)", "z3 5.1.0", "go/ssa v0.29.0", "harness + stubs listed under stubs/assumptions"},
	}
	if len(samples) == 0 {
		cov["samples"] = []interface{}{"no symbolic inputs on any path"}
	}
	ev := map[string]interface{}{
		"property_id": prop,
		"tier":        tier,
		"seed":        seed,
		"level":       "other",
		"coverage":    cov,
		"assumptions": spec.Assumptions,
		"wall_s":      wall,
		"violations":  violations,
	}
	os.MkdirAll(filepath.Join(verifRoot, "evidence"), 0o755)
	eb, _ := json.MarshalIndent(ev, "", " ")
	os.WriteFile(filepath.Join(verifRoot, "evidence", prop+".json"), eb, 0o644)
	if violations > 0 {
		fmt.Printf("[%s %s] FAILED: %d violated assertion(s); wall %.1fs\n", prop, tier, violations, wall)
		return 1
	}
	if vacuous > 0 {
		fmt.Printf("[%s %s] ERROR: %d harness entr(ies) vacuous or with failed package initialisers: %s\n", prop, tier, vacuous, strings.Join(inconclusiveWhy, " | "))
		return 2
	}
	if inconclusive > 0 {
		fmt.Printf("[%s %s] INCONCLUSIVE parts (not counted as success, see evidence): %s\n", prop, tier, strings.Join(inconclusiveWhy, " | "))
		if os.Getenv("VERIF_STRICT") != "" {
			return 3
		}
	}
	fmt.Printf("[%s %s] OK: no violation within the bounds; %d paths, %d assertion queries discharged, %d known finding(s) reproduced; wall %.1fs\n", prop, tier, totalPaths, totalAssertQ, knownLines, wall)
	return 0
}

func contains(l []string, s string) bool {
	for _, x := range l {
		if x == s {
			return true
		}
	}
	return false
}

func tail(s string, n int) string {
	ls := strings.Split(strings.TrimSpace(s), "\n")
	if len(ls) > n {
		ls = ls[len(ls)-n:]
	}
	return strings.Join(ls, "\n")
}
