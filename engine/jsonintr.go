package main

import (
	"go/types"
	"reflect"
	"strings"
	"sync"

	"golang.org/x/tools/go/ssa"
	"golang.org/x/tools/go/ssa/ssautil"
)

// encoding/json is reflection based and cannot be interpreted. (*json.Encoder).Encode is modelled for the
// flat structs that are serialised for signing: the engine does what reflection does (walk the fields in
// declaration order, json tag names, omitempty) and produces the real JSON text:
//   - strings go through the REAL encoding/json.appendString (escaping, invalid UTF-8 replacement),
//   - []byte is base64 (standard alphabet, padding) as a term per output character,
//   - integers are rendered exactly (fork on the digit count), booleans fork.
// Nested structs, maps, floats, pointers inside the struct and custom marshalers are not supported (fail).

var jsonAppendStringOnce sync.Once
var jsonAppendStringFn *ssa.Function

func (in *Interp) jsonAppendString() *ssa.Function {
	jsonAppendStringOnce.Do(func() {
		pkg := in.prog.ImportedPackage("encoding/json")
		if pkg == nil {
			return
		}
		origin := pkg.Func("appendString")
		if origin == nil {
			return
		}
		for fn := range ssautil.AllFunctions(in.prog) {
			if fn.Origin() == origin && len(fn.TypeArgs()) == 1 && types.Identical(fn.TypeArgs()[0], types.Typ[types.String]) {
				jsonAppendStringFn = fn
				return
			}
		}
	})
	if jsonAppendStringFn == nil {
		in.fail("encoding/json.appendString[string] not found in the program")
	}
	return jsonAppendStringFn
}

func b64Char(v *Term) *Term { // v: 6-bit value -> 8-bit character of the standard alphabet
	x := ZeroExt(2, v)
	lt := func(n uint64) *Term { return BVCmp("bvult", x, BVConstU(8, n)) }
	return Ite(lt(26), BVBin("bvadd", x, BVConstU(8, 'A')),
		Ite(lt(52), BVBin("bvadd", x, BVConstU(8, 'a'-26)),
			Ite(lt(62), BVBin("bvsub", x, BVConstU(8, 52-'0')),
				Ite(lt(63), BVConstU(8, '+'), BVConstU(8, '/')))))
}

func base64Std(b []*Term) []*Term {
	var out []*Term
	for i := 0; i < len(b); i += 3 {
		n := len(b) - i
		b0 := b[i]
		b1, b2 := BVConstU(8, 0), BVConstU(8, 0)
		if n > 1 {
			b1 = b[i+1]
		}
		if n > 2 {
			b2 = b[i+2]
		}
		out = append(out, b64Char(Extract(7, 2, b0)))
		out = append(out, b64Char(Concat(Extract(1, 0, b0), Extract(7, 4, b1))))
		if n > 1 {
			out = append(out, b64Char(Concat(Extract(3, 0, b1), Extract(7, 6, b2))))
		} else {
			out = append(out, BVConstU(8, '='))
		}
		if n > 2 {
			out = append(out, b64Char(Extract(5, 0, b2)))
		} else {
			out = append(out, BVConstU(8, '='))
		}
	}
	return out
}

func strTerms(s string) []*Term { return concreteStr(s).B }

func (in *Interp) jsonValue(t types.Type, v Value, escapeHTML *Term) (text []*Term, empty *Term) {
	v = in.force(v)
	switch u := t.Underlying().(type) {
	case *types.Basic:
		switch {
		case u.Info()&types.IsString != 0:
			s := v.(Str)
			r := in.call(in.jsonAppendString(), []Value{Slice{A: []Value{}}, s, escapeHTML}).(Slice)
			out := make([]*Term, len(r.A))
			for i, e := range r.A {
				out[i] = e.(*Term)
			}
			return out, BoolConst(len(s.B) == 0)
		case u.Kind() == types.Bool:
			c := v.(*Term)
			if in.ctx.Branch(c) {
				return strTerms("true"), tFalse
			}
			return strTerms("false"), tTrue
		case u.Info()&types.IsInteger != 0:
			x := v.(*Term)
			var iv *Term
			if u.Info()&types.IsUnsigned != 0 {
				iv = bvToIntU(x)
			} else {
				iv = bvToIntS(x)
			}
			return in.strconvFormat(iv, 10).B, BVCmp("=", x, BVConstU(x.W, 0))
		}
	case *types.Slice:
		if b, ok := u.Elem().Underlying().(*types.Basic); ok && b.Kind() == types.Uint8 {
			s := v.(Slice)
			if s.Nil {
				return strTerms("null"), tTrue
			}
			bs := make([]*Term, len(s.A))
			for i, e := range s.A {
				bs[i] = e.(*Term)
			}
			out := append(strTerms(`"`), base64Std(bs)...)
			return append(out, strTerms(`"`)...), BoolConst(len(bs) == 0)
		}
	}
	in.fail("encoding/json model: unsupported field type %v", t)
	return nil, nil
}

func (in *Interp) jsonEncode(t types.Type, v Value, escapeHTML *Term) []*Term {
	v = in.force(v)
	if p, ok := t.Underlying().(*types.Pointer); ok {
		pv := v.(*Value)
		if pv == nil {
			return strTerms("null")
		}
		return in.jsonEncode(p.Elem(), *pv, escapeHTML)
	}
	st, ok := t.Underlying().(*types.Struct)
	if !ok {
		text, _ := in.jsonValue(t, v, escapeHTML)
		return text
	}
	sv := v.(Struct)
	// pass 1: the field list as encoding/json builds it (names, options; fields sharing a name at this level are
	// all dropped unless exactly one of them carries the name in its tag)
	type jf struct {
		idx       int
		name      string
		tagged    bool
		omitEmpty bool
	}
	var fields []jf
	for i := 0; i < st.NumFields(); i++ {
		f := st.Field(i)
		if f.Embedded() {
			in.fail("encoding/json model: embedded field %s", f.Name())
		}
		if !f.Exported() {
			continue
		}
		e := jf{idx: i, name: f.Name()}
		if tag, ok := reflect.StructTag(st.Tag(i)).Lookup("json"); ok {
			parts := strings.Split(tag, ",")
			if parts[0] == "-" && len(parts) == 1 {
				continue
			}
			if parts[0] != "" {
				e.name, e.tagged = parts[0], true
			}
			for _, o := range parts[1:] {
				switch o {
				case "omitempty":
					e.omitEmpty = true
				case "string":
					in.fail("encoding/json model: ,string option on %s", f.Name())
				}
			}
		}
		fields = append(fields, e)
	}
	keep := make([]bool, len(fields))
	for i, e := range fields {
		same, taggedSame := 0, 0
		for _, o := range fields {
			if o.name == e.name {
				same++
				if o.tagged {
					taggedSame++
				}
			}
		}
		keep[i] = same == 1 || (e.tagged && taggedSame == 1)
	}
	out := strTerms("{")
	first := true
	for i, e := range fields {
		if !keep[i] {
			continue
		}
		text, empty := in.jsonValue(st.Field(e.idx).Type(), sv[e.idx], escapeHTML)
		if e.omitEmpty && in.ctx.Branch(empty) {
			continue
		}
		if !first {
			out = append(out, strTerms(",")...)
		}
		first = false
		out = append(out, strTerms(`"`+e.name+`":`)...)
		out = append(out, text...)
	}
	return append(out, strTerms("}")...)
}

func initJSON() {
	intrinsics["encoding/json.NewEncoder"] = func(in *Interp, fn *ssa.Function, a []Value) Value {
		et := fn.Signature.Results().At(0).Type().(*types.Pointer).Elem()
		v := zero(et)
		st := v.(Struct)
		st[0] = a[0]
		st[2] = tTrue
		var cell Value = st
		return &cell
	}
	intrinsics["(*encoding/json.Encoder).SetEscapeHTML"] = func(in *Interp, fn *ssa.Function, a []Value) Value {
		p := in.force(a[0]).(*Value)
		st := (*p).(Struct)
		st[2] = a[1]
		return nil
	}
	intrinsics["(*encoding/json.Encoder).Encode"] = func(in *Interp, fn *ssa.Function, a []Value) Value {
		encPtr := in.force(a[0]).(*Value)
		enc := (*encPtr).(Struct)
		w := in.force(enc[0]).(Iface)
		escapeHTML := enc[2].(*Term)
		if len(enc) > 4 {
			if p, ok := enc[4].(Str); ok && len(p.B) > 0 {
				in.fail("encoding/json model: indentation")
			}
		}
		v := in.force(a[1]).(Iface)
		if v.T == nil {
			in.fail("encoding/json model: nil value")
		}
		text := in.jsonEncode(v.T, v.V, escapeHTML)
		text = append(text, BVConstU(8, '\n'))
		vals := make([]Value, len(text))
		for i, b := range text {
			vals[i] = b
		}
		ms := in.prog.MethodSets.MethodSet(w.T)
		sel := ms.Lookup(nil, "Write")
		if sel == nil {
			in.fail("encoding/json model: writer %v has no Write", w.T)
		}
		in.call(in.prog.MethodValue(sel), []Value{w.V, Slice{A: vals}})
		return Iface{}
	}
}
