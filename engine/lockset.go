package main

import (
	"sync"
	"fmt"
	"sort"
)

// Symbolic lockset race check (prototype): accesses to heap cells that existed before the
// monitored calls are logged with the set of locks held; two accesses from different monitored
// calls race if they can hit the same cell, at least one is a write, and no common lock is held
// in a conflicting mode.

type lockMode int

const (
	lockW lockMode = iota
	lockR
)

type access struct {
	tag   string
	write bool
	cell  *Value // concrete cell, or nil when sym != nil
	sym   *SymPtr
	locks map[*SyncObj]lockMode
	where string
}

var mapCells = map[*Map]*Value{}
var mapCellsMu sync.Mutex

// mapCell gives every map object one pseudo-cell: any lookup reads it, any update/delete writes it.
func mapCell(m *Map) *Value {
	mapCellsMu.Lock()
	defer mapCellsMu.Unlock()
	c, ok := mapCells[m]
	if !ok {
		c = new(Value)
		mapCells[m] = c
	}
	return c
}

type raceMon struct {
	pre    map[*Value]bool
	tag    string
	log    []access
	active bool
}

func (in *Interp) heldSnapshot() map[*SyncObj]lockMode {
	m := map[*SyncObj]lockMode{}
	for k, v := range in.held {
		m[k] = v
	}
	return m
}

// collectCells walks the heap reachable from v and records every cell address.
func collectCells(v Value, seen map[*Value]bool) {
	switch x := v.(type) {
	case *Value:
		if x == nil || seen[x] {
			return
		}
		seen[x] = true
		collectCells(*x, seen)
	case Struct:
		for i := range x {
			seen[&x[i]] = true
			collectCells(x[i], seen)
		}
	case Array:
		for i := range x {
			seen[&x[i]] = true
			collectCells(x[i], seen)
		}
	case Slice:
		full := x.A[:cap(x.A)]
		for i := range full {
			seen[&full[i]] = true
			collectCells(full[i], seen)
		}
	case Iface:
		collectCells(x.V, seen)
	case *Map:
		if x != nil {
			seen[mapCell(x)] = true
			for _, e := range x.E {
				collectCells(e.V, seen)
			}
		}
	}
}

func (in *Interp) logAccess(addr Value, write bool) {
	m := in.race
	if m == nil || !m.active {
		return
	}
	where := ""
	if fr := in.ctx.curFrame; fr != nil && fr.cur != nil {
		p := fr.fn.Prog.Fset.Position(fr.cur.Pos())
		where = fmt.Sprintf("%s:%d", fr.fn.Name(), p.Line)
	}
	switch a := addr.(type) {
	case *Value:
		if a != nil && m.pre[a] {
			m.log = append(m.log, access{tag: m.tag, write: write, cell: a, locks: in.heldSnapshot(), where: where})
		}
	case SymPtr:
		if len(a.Elems) > 0 && m.pre[a.Elems[0]] {
			cp := a
			m.log = append(m.log, access{tag: m.tag, write: write, sym: &cp, locks: in.heldSnapshot(), where: where})
		}
	}
}

func protected(a, b access) bool {
	for l, ma := range a.locks {
		if mb, ok := b.locks[l]; ok {
			if ma == lockW || mb == lockW {
				return true
			}
		}
	}
	return false
}

// overlap returns the condition under which two accesses touch the same cell.
func overlap(a, b access) *Term {
	idxOf := func(s *SymPtr, c *Value) *Term {
		for k, e := range s.Elems {
			if e == c {
				return BVCmp("=", s.Idx, BVConstI(s.Idx.W, int64(k)))
			}
		}
		return tFalse
	}
	switch {
	case a.cell != nil && b.cell != nil:
		return BoolConst(a.cell == b.cell)
	case a.cell != nil:
		return idxOf(b.sym, a.cell)
	case b.cell != nil:
		return idxOf(a.sym, b.cell)
	}
	if len(a.sym.Elems) == 0 || len(b.sym.Elems) == 0 || a.sym.Elems[0] != b.sym.Elems[0] {
		return tFalse
	}
	if a.sym.Idx.W != b.sym.Idx.W {
		return tFalse
	}
	return BVCmp("=", a.sym.Idx, b.sym.Idx)
}

func (in *Interp) raceCheck() {
	m := in.race
	reported := map[string]bool{}
	for i := range m.log {
		for j := i + 1; j < len(m.log); j++ {
			a, b := m.log[i], m.log[j]
			if a.tag == b.tag || (!a.write && !b.write) || protected(a, b) {
				continue
			}
			c := overlap(a, b)
			if c.IsFalse() {
				continue
			}
			key := a.where + "|" + b.where
			if reported[key] {
				continue
			}
			reported[key] = true
			kinds := []string{"read", "write"}
			w := func(x bool) string {
				if x {
					return kinds[1]
				}
				return kinds[0]
			}
			in.ctx.Assert(Not(c), fmt.Sprintf("data race: %s %s at %s vs %s %s at %s without a common lock", a.tag, w(a.write), a.where, b.tag, w(b.write), b.where))
		}
	}
	_ = sort.Strings
}
