package main

// Explored-mode concurrency: each simulated goroutine runs on its own Go goroutine, exactly one
// is active at a time; at every scheduling point the next thread is a (forked) choice.

type thread struct {
	id      int
	resume  chan struct{}
	done    bool
	blocked bool
}

type threadAbort struct{ r interface{} }

func (in *Interp) spawn(f func()) {
	t := &thread{id: len(in.threads), resume: make(chan struct{})}
	in.threads = append(in.threads, t)
	go func() {
		<-t.resume
		defer func() {
			if r := recover(); r != nil {
				in.threadPanic = r
			}
			t.done = true
			// hand control back to main (thread 0); main decides what runs next
			in.cur = in.threads[0]
			in.threads[0].resume <- struct{}{}
		}()
		f()
	}()
}

func (in *Interp) runnable() []*thread {
	var r []*thread
	for _, t := range in.threads {
		if !t.done && !t.blocked {
			r = append(r, t)
		}
	}
	return r
}

func (in *Interp) switchTo(t *thread) {
	self := in.cur
	if t == self {
		return
	}
	in.cur = t
	t.resume <- struct{}{}
	<-self.resume
	if in.threadPanic != nil && self.id == 0 {
		r := in.threadPanic
		in.threadPanic = nil
		panic(r)
	}
}

// yield is a scheduling point.
func (in *Interp) yield() {
	if !in.explore || len(in.threads) < 2 {
		return
	}
	c := in.runnable()
	if len(c) < 2 {
		return
	}
	k := in.ctx.Choose(len(c))
	in.switchTo(c[k])
}

// joinAll runs every other thread to completion (with scheduling choices) from the main thread.
func (in *Interp) joinAll() {
	in.threads[0].blocked = true
	defer func() { in.threads[0].blocked = false }()
	for {
		var others []*thread
		for _, t := range in.threads[1:] {
			if !t.done {
				others = append(others, t)
			}
		}
		if len(others) == 0 {
			return
		}
		k := 0
		if len(others) > 1 {
			k = in.ctx.Choose(len(others))
		}
		in.switchTo(others[k])
	}
}
