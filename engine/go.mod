module gosx

go 1.23

require golang.org/x/tools v0.29.0

require (
	golang.org/x/mod v0.22.0 // indirect
	golang.org/x/sync v0.10.0 // indirect
	golang.org/x/sys v0.29.0 // indirect
)

require golang.org/x/crypto v0.0.0-20210322153248-0c34fe9e7dc2
