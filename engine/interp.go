package main

import (
	"os"
	"math"
	"fmt"
	"go/constant"
	"go/token"
	"go/types"
	"math/big"
	"strings"

	"golang.org/x/tools/go/ssa"
)

type goPanic struct{ v Value }   // Go-level panic value
type abortPath struct{ why string } // path ends (assume false / infeasible / violation recorded)
type unsupported struct{ what string }

type opaqueCall struct{ ret Value }
type engineBug struct{ msg string }

type deferred struct {
	fn   Value
	args []Value
	inst *ssa.Defer
}

type frame struct {
	in        *Interp
	fn        *ssa.Function
	env       map[ssa.Value]Value
	block     *ssa.BasicBlock
	prev      *ssa.BasicBlock
	defers    []*deferred
	result    Value
	panicking bool
	panicVal  Value
	skipPhis  bool
	cur       ssa.Instruction
}

type Interp struct {
	prog     *ssa.Program
	globals  map[*ssa.Global]*Value
	inited   map[*ssa.Package]bool
	ctx      *PathCtx
	funcsHit map[string]int
	steps    int
	goq      []func()
	pools    map[*Value][]Value
	curRecoverFrame []*frame
	initRunning bool
	threads     []*thread
	cur         *thread
	explore     bool
	threadPanic interface{}
	held        map[*SyncObj]lockMode
	race        *raceMon
	mapOrder    bool
	fmtExact    bool
}

func (in *Interp) fail(format string, a ...interface{}) {
	panic(unsupported{fmt.Sprintf(format, a...)})
}

func (fr *frame) get(v ssa.Value) Value {
	switch v := v.(type) {
	case *ssa.Const:
		return fr.in.constVal(v)
	case *ssa.Global:
		return fr.in.global(v)
	case *ssa.Function:
		return v
	case *ssa.Builtin:
		return v
	case nil:
		return nil
	}
	if r, ok := fr.env[v]; ok {
		return r
	}
	panic(fmt.Sprintf("get: no value for %T %v in %s", v, v.Name(), fr.fn))
}

func (in *Interp) constVal(c *ssa.Const) Value {
	t := c.Type()
	if c.Value == nil {
		return zero(t)
	}
	if b, ok := t.Underlying().(*types.Basic); ok {
		switch {
		case b.Info()&types.IsBoolean != 0:
			return BoolConst(constant.BoolVal(c.Value))
		case b.Info()&types.IsInteger != 0:
			w, _, _ := intWidth(t)
			z, _ := new(big.Int).SetString(constant.ToInt(c.Value).ExactString(), 10)
			return BVConst(w, z)
		case b.Info()&types.IsString != 0:
			return concreteStr(constant.StringVal(c.Value))
		case b.Info()&types.IsFloat != 0:
			f, _ := constant.Float64Val(c.Value)
			if b.Kind() == types.Float32 {
				return Float{F: float64(float32(f)), Is32: true}
			}
			return Float{F: f}
		}
	}
	in.fail("const of type %v", t)
	return nil
}

func (in *Interp) global(g *ssa.Global) *Value {
	if p, ok := in.globals[g]; ok {
		return p
	}
	pkg := g.Pkg
	if !in.inited[pkg] {
		in.inited[pkg] = true
		in.allocGlobals(pkg)
		if initFn := pkg.Func("init"); initFn != nil && len(initFn.Blocks) > 0 && interpretablePkg(pkg.Pkg.Path()) {
			saved := in.ctx.quiet
			in.ctx.quiet = true
			in.initRunning = true
			func() {
				defer func() {
					if r := recover(); r != nil {
						switch r := r.(type) {
						case unsupported:
							in.ctx.ex.InitFailures[pkg.Pkg.Path()] = r.what
						case engineBug:
							in.ctx.ex.InitFailures[pkg.Pkg.Path()] = r.msg
						default:
							panic(r)
						}
					}
				}()
				in.callFunction(initFn, nil, nil)
			}()
			in.ctx.quiet = saved
		}
	}
	return in.globals[g]
}

func (in *Interp) allocGlobals(pkg *ssa.Package) {
	for _, m := range pkg.Members {
		if g, ok := m.(*ssa.Global); ok {
			if _, done := in.globals[g]; !done {
				v := zero(g.Type().(*types.Pointer).Elem())
				if pkg.Pkg.Path() == "encoding/json" && (g.Name() == "safeSet" || g.Name() == "htmlSafeSet") {
					// the package initialiser is not interpretable (reflection); these two tables are what the
					// string encoder needs: printable ASCII and DEL are safe, except " and \ (and < > & for HTML)
					arr := v.(Array)
					for b := 0x20; b < len(arr) && b < 0x80; b++ {
						safe := b != '"' && b != '\\'
						if g.Name() == "htmlSafeSet" && (b == '<' || b == '>' || b == '&') {
							safe = false
						}
						arr[b] = BoolConst(safe)
					}
				}
				if pkg.Pkg.Path() == "crypto/rand" && g.Name() == "Reader" {
					// environment: reads succeed and leave the buffer as it is (content is arbitrary for the callers)
					v = Iface{T: types.Typ[types.Int], V: Opaque{"crypto/rand.Reader"}}
				}
				in.globals[g] = &v
			}
		}
	}
}

func interpretablePkg(path string) bool {
	if strings.HasPrefix(path, "github.com/ElrondNetwork/elrond-go-logger") {
		return false
	}
	if path == "github.com/gogo/protobuf/proto" {
		return false
	}
	if strings.HasPrefix(path, "github.com/ElrondNetwork/") || strings.HasPrefix(path, "github.com/gogo/protobuf") || strings.HasPrefix(path, "github.com/btcsuite/btcutil/bech32") {
		return true
	}
	switch path {
	case "container/list", "errors", "sort", "bytes", "strings", "math/bits", "encoding/binary", "unicode/utf8", "strconv", "math", "encoding/hex", "io":
		return true
	}
	return false
}

// call invokes fn (a *ssa.Function, *Closure, *ssa.Builtin, or BoundMethod) with args.
func (in *Interp) call(fnv Value, args []Value) Value {
	switch f := fnv.(type) {
	case *ssa.Function:
		if f == nil {
			panic(goPanic{concreteStr("call of nil function")})
		}
		return in.callFunction(f, args, nil)
	case *Closure:
		return in.callFunction(f.Fn, args, f.Env)
	case *ssa.Builtin:
		return in.callBuiltin(f, args)
	case opaqueCall:
		return f.ret
	}
	in.fail("call of %T", fnv)
	return nil
}

var traceCalls = os.Getenv("GOSX_TRACE") != ""

func (in *Interp) callFunction(fn *ssa.Function, args []Value, env []Value) Value {
	name := fn.String()
	if traceCalls {
		fmt.Fprintln(os.Stderr, "CALL", name)
	}
	if rep, ok := in.ctx.ex.Summaries[name]; ok && rep != fn {
		// function summary: the callee is replaced by a harness function stating its contract
		return in.callFunction(rep, args, nil)
	}
	if h, ok := intrinsics[name]; ok {
		for i := range args {
			args[i] = in.force(args[i])
		}
		return h(in, fn, args)
	}
	if fn.Pkg != nil && fn.Name() == "init" && fn.Signature.Recv() == nil && fn.Pkg.Func("init") == fn && !in.initRunning {
		return nil
	}
	if fn.Pkg != nil {
		pp := fn.Pkg.Pkg.Path()
		if pp == "math/big" || pp == "reflect" || pp == "unsafe" || pp == "encoding/json" {
			in.fail("no intrinsic for %s", name)
		}
		if strings.HasPrefix(pp, "github.com/ElrondNetwork/elrond-go-logger") {
			return zeroResults(fn.Signature)
		}
	}
	if strings.HasPrefix(fn.Name(), "verif") && len(fn.Blocks) == 0 {
		return in.verifCall(fn, args)
	}
	if len(fn.Blocks) == 0 {
		in.fail("external function without intrinsic: %s", name)
	}
	if fn.Pkg != nil && fn.Name() == "init" && fn.Signature.Recv() == nil && fn.Pkg.Func("init") == fn {
		// package initializer: run only via global(); calls from other inits are skipped (lazy init)
		if !in.initRunning {
			return nil
		}
		in.initRunning = false
	}
	in.funcsHit[name]++
	fr := &frame{in: in, fn: fn, env: make(map[ssa.Value]Value)}
	for i, p := range fn.Params {
		fr.env[p] = args[i]
	}
	for i, fv := range fn.FreeVars {
		fr.env[fv] = env[i]
	}
	fr.block = fn.Blocks[0]
	fr.run()
	if isVarintSizeFn(fn) {
		// generated protobuf code: the varint length drives buffer offsets; fork over its (<= 10) values
		// once here instead of carrying a symbolic offset through every later index expression
		if t, ok := fr.result.(*Term); ok && !t.IsConst() {
			return BVConstI(t.W, in.ctx.Concretize(t, "varint length"))
		}
	}
	return fr.result
}

func isVarintSizeFn(fn *ssa.Function) bool {
	n := fn.Name()
	return (strings.HasPrefix(n, "sov") || strings.HasPrefix(n, "soz")) && fn.Signature.Params().Len() == 1 && fn.Signature.Results().Len() == 1 && fn.Pkg != nil
}

func zeroResults(sig *types.Signature) Value {
	r := sig.Results()
	switch r.Len() {
	case 0:
		return nil
	case 1:
		return zero(r.At(0).Type())
	}
	t := make(Tuple, r.Len())
	for i := range t {
		t[i] = zero(r.At(i).Type())
	}
	return t
}

func (fr *frame) run() {
	defer func() {
		if fr.block == nil {
			return // normal return
		}
		r := recover()
		if r == nil {
			return
		}
		gp, ok := r.(goPanic)
		if !ok {
			switch u := r.(type) {
			case abortPath, solverTimeout:
				panic(r)
			case unsupported:
				if !strings.Contains(u.what, "\n  in ") {
					u.what = fmt.Sprintf("%s\n  in %s at %v", u.what, fr.fn, fr.cur)
				}
				panic(u)
			}
			// engine bug: attach context once
			if _, seen := r.(engineBug); !seen {
				r = engineBug{fmt.Sprintf("%v\n  in %s\n  at %v", r, fr.fn, fr.cur)}
			}
			panic(r) // engine-level abort: propagate
		}
		fr.panicking = true
		fr.panicVal = gp.v
		fr.runDefers()
		if fr.panicking {
			panic(goPanic{fr.panicVal})
		}
		// recovered: return named results if any (Recover block)
		if fr.fn.Recover != nil {
			fr.block = fr.fn.Recover
			fr.prev = nil
			fr.runBlocks()
		}
	}()
	fr.runBlocks()
}

func (fr *frame) runBlocks() {
	for fr.block != nil {
		b := fr.block
		next := (*ssa.BasicBlock)(nil)
		done := false
		for _, ins := range b.Instrs {
			fr.in.steps++
			fr.cur = ins
			fr.in.ctx.curFrame = fr
			switch k := fr.exec(ins); k {
			case kNext:
			case kReturn:
				fr.block = nil
				return
			case kJump:
				next = fr.block
				done = true
			}
			if done {
				break
			}
		}
		if !done {
			panic("block fell through")
		}
		fr.prev = b
		fr.block = next
	}
}

type contKind int

const (
	kNext contKind = iota
	kReturn
	kJump
)

func (fr *frame) runDefers() {
	for len(fr.defers) > 0 {
		d := fr.defers[len(fr.defers)-1]
		fr.defers = fr.defers[:len(fr.defers)-1]
		fr.in.curRecoverFrame = append(fr.in.curRecoverFrame, fr)
		fr.in.call(d.fn, d.args)
		fr.in.curRecoverFrame = fr.in.curRecoverFrame[:len(fr.in.curRecoverFrame)-1]
	}
}

func (fr *frame) exec(ins ssa.Instruction) contKind {
	in := fr.in
	if fr.skipPhis {
		if _, isPhi := ins.(*ssa.Phi); !isPhi {
			fr.skipPhis = false
		}
	}
	switch ins := ins.(type) {
	case *ssa.DebugRef:
	case *ssa.UnOp:
		fr.env[ins] = in.unop(ins, fr.get(ins.X))
	case *ssa.BinOp:
		fr.env[ins] = in.binop(ins.Op, ins.X.Type(), fr.get(ins.X), fr.get(ins.Y))
	case *ssa.Call:
		fn, args := fr.prepareCall(&ins.Call)
		fr.env[ins] = in.call(fn, args)
	case *ssa.ChangeInterface:
		fr.env[ins] = fr.get(ins.X)
	case *ssa.ChangeType:
		fr.env[ins] = fr.get(ins.X)
	case *ssa.Convert:
		fr.env[ins] = in.conv(ins.Type(), ins.X.Type(), in.force(fr.get(ins.X)))
	case *ssa.MakeInterface:
		fr.env[ins] = Iface{T: ins.X.Type(), V: fr.get(ins.X)}
	case *ssa.Extract:
		fr.env[ins] = fr.get(ins.Tuple).(Tuple)[ins.Index]
	case *ssa.Slice:
		fr.env[ins] = in.sliceOp(ins, fr.get(ins.X), fr.get(ins.Low), fr.get(ins.High), fr.get(ins.Max))
	case *ssa.Return:
		switch len(ins.Results) {
		case 0:
		case 1:
			fr.result = fr.get(ins.Results[0])
		default:
			t := make(Tuple, len(ins.Results))
			for i, r := range ins.Results {
				t[i] = fr.get(r)
			}
			fr.result = t
		}
		return kReturn
	case *ssa.RunDefers:
		fr.runDefers()
	case *ssa.Panic:
		panic(goPanic{fr.get(ins.X)})
	case *ssa.Send:
		ch := fr.get(ins.Chan).(*Chan)
		ch.Q = append(ch.Q, fr.get(ins.X))
	case *ssa.Store:
		addr := in.force(fr.get(ins.Addr))
		in.logAccess(addr, true)
		if sp, ok := addr.(SymPtr); ok {
			in.storeSym(sp, copyVal(fr.get(ins.Val)))
			break
		}
		p := addr.(*Value)
		if p == nil {
			panic(goPanic{concreteStr("nil pointer dereference (store)")})
		}
		*p = copyVal(fr.get(ins.Val))
	case *ssa.If:
		c := fr.get(ins.Cond).(*Term)
		if !c.IsConst() && (fr.tryMerge(c) || fr.tryMergeRegion(c)) {
			return kJump
		}
		succ := 1
		if in.ctx.Branch(c) {
			succ = 0
		}
		fr.block = fr.block.Succs[succ]
		return kJump
	case *ssa.Jump:
		fr.block = fr.block.Succs[0]
		return kJump
	case *ssa.Defer:
		fn, args := fr.prepareCall(&ins.Call)
		fr.defers = append(fr.defers, &deferred{fn: fn, args: args, inst: ins})
	case *ssa.Go:
		fn, args := fr.prepareCall(&ins.Call)
		if in.explore {
			in.spawn(func() { in.call(fn, args) })
		} else {
			in.goq = append(in.goq, func() { in.call(fn, args) })
		}
	case *ssa.MakeChan:
		fr.env[ins] = &Chan{Cap: int(concInt(fr.get(ins.Size)))}
	case *ssa.Alloc:
		v := zero(ins.Type().(*types.Pointer).Elem())
		fr.env[ins] = &v
	case *ssa.MakeSlice:
		n := in.concretize(fr.get(ins.Len).(*Term), "make len")
		c := in.concretize(fr.get(ins.Cap).(*Term), "make cap")
		if n < 0 || c < n || c > 1<<24 {
			panic(goPanic{concreteStr("makeslice: len out of range")})
		}
		a := make([]Value, n, c)
		et := ins.Type().Underlying().(*types.Slice).Elem()
		full := a[:c]
		for i := range full {
			full[i] = zero(et)
		}
		fr.env[ins] = Slice{A: a}
	case *ssa.MakeMap:
		fr.env[ins] = &Map{idx: map[string]int{}}
	case *ssa.Range:
		fr.env[ins] = in.rangeIter(fr.get(ins.X))
	case *ssa.Next:
		fr.env[ins] = in.next(ins, fr.get(ins.Iter))
	case *ssa.FieldAddr:
		p := in.force(fr.get(ins.X)).(*Value)
		if p == nil {
			panic(goPanic{concreteStr("nil pointer dereference (field)")})
		}
		fr.env[ins] = &(*p).(Struct)[ins.Field]
	case *ssa.Field:
		fr.env[ins] = in.force(fr.get(ins.X)).(Struct)[ins.Field]
	case *ssa.IndexAddr:
		fr.env[ins] = in.indexAddr(fr.get(ins.X), fr.idxTerm(ins.Index))
	case *ssa.Index:
		fr.env[ins] = in.index(fr.get(ins.X), fr.idxTerm(ins.Index))
	case *ssa.Lookup:
		fr.env[ins] = in.lookup(ins, fr.get(ins.X), fr.get(ins.Index))
	case *ssa.MapUpdate:
		m := in.force(fr.get(ins.Map)).(*Map)
		if m == nil {
			panic(goPanic{concreteStr("assignment to entry in nil map")})
		}
		in.mapSet(m, fr.get(ins.Key), copyVal(fr.get(ins.Value)))
	case *ssa.TypeAssert:
		fr.env[ins] = in.typeAssert(ins, in.force(fr.get(ins.X)).(Iface))
	case *ssa.MakeClosure:
		var b []Value
		for _, x := range ins.Bindings {
			b = append(b, fr.get(x))
		}
		fr.env[ins] = &Closure{Fn: ins.Fn.(*ssa.Function), Env: b}
	case *ssa.Phi:
		if fr.skipPhis {
			break
		}
		// the phis of a block are one parallel assignment: all of them read the values of the
		// predecessor before any of them is written (matters for `prev, cur = cur, next` in loops)
		blk := ins.Block()
		if blk.Instrs[0] != ssa.Instruction(ins) {
			break // assigned together with the first phi of the block
		}
		edge := -1
		for i, p := range blk.Preds {
			if p == fr.prev {
				edge = i
				break
			}
		}
		if edge >= 0 {
			var phis []*ssa.Phi
			var vals []Value
			for _, bi := range blk.Instrs {
				phi, isPhi := bi.(*ssa.Phi)
				if !isPhi {
					break
				}
				phis = append(phis, phi)
				vals = append(vals, fr.get(phi.Edges[edge]))
			}
			for i, phi := range phis {
				fr.env[phi] = vals[i]
			}
		}
	case *ssa.Select:
		fr.env[ins] = in.selectOp(ins, fr)
	default:
		in.fail("instruction %T: %v", ins, ins)
	}
	return kNext
}

// idxTerm widens an index of any integer type to 64 bits according to its signedness.
func (fr *frame) idxTerm(v ssa.Value) *Term {
	t := fr.get(v).(*Term)
	if t.W > 0 && t.W < 64 {
		_, sg, _ := intWidth(v.Type())
		if sg {
			return SignExt(64-t.W, t)
		}
		return ZeroExt(64-t.W, t)
	}
	return t
}

func concInt(v Value) int64 {
	t := v.(*Term)
	if !t.IsConst() {
		panic(unsupported{"symbolic value where concrete int required"})
	}
	return signed(t.W, t.Val).Int64()
}

func (fr *frame) prepareCall(c *ssa.CallCommon) (Value, []Value) {
	var args []Value
	var fn Value
	if c.IsInvoke() {
		recv := fr.in.force(fr.get(c.Value)).(Iface)
		if recv.T == nil {
			panic(goPanic{concreteStr("nil interface method call: " + c.Method.Name())})
		}
		if _, ok := recv.V.(Opaque); ok {
			sig := c.Method.Type().(*types.Signature)
			return opaqueCall{zeroResults(sig)}, nil
		}
		f := fr.in.findMethod(recv.T, c.Method)
		fn = f
		args = append(args, recv.V)
	} else {
		fn = fr.in.force(fr.get(c.Value))
	}
	for _, a := range c.Args {
		args = append(args, fr.get(a))
	}
	return fn, args
}

func (in *Interp) findMethod(t types.Type, m *types.Func) *ssa.Function {
	ms := in.prog.MethodSets.MethodSet(t)
	sel := ms.Lookup(m.Pkg(), m.Name())
	if sel == nil {
		in.fail("method %s not found on %v", m.Name(), t)
	}
	f := in.prog.MethodValue(sel)
	if f == nil {
		in.fail("no method value for %s on %v", m.Name(), t)
	}
	return f
}

func (in *Interp) unop(ins *ssa.UnOp, x Value) Value {
	switch ins.Op {
	case token.MUL: // load
		x = in.force(x)
		in.logAccess(x, false)
		if sp, ok := x.(SymPtr); ok {
			return in.loadSym(sp)
		}
		p := x.(*Value)
		if p == nil {
			panic(goPanic{concreteStr("nil pointer dereference (load)")})
		}
		return copyVal(*p)
	case token.NOT:
		return Not(x.(*Term))
	case token.SUB:
		switch x := x.(type) {
		case *Term:
			return BVBin("bvsub", BVConstU(x.W, 0), x)
		case Float:
			return Float{F: -x.F}
		}
	case token.XOR:
		t := x.(*Term)
		return BVBin("bvxor", t, BVConst(t.W, mask(t.W)))
	case token.ARROW:
		ch := x.(*Chan)
		in.runGoroutines()
		if len(ch.Q) == 0 {
			if ch.Closed {
				z := zero(ins.Type())
				if ins.CommaOk {
					return Tuple{z.(Tuple)[0], tFalse}
				}
				return z
			}
			panic(abortPath{"deadlock: receive on empty channel"})
		}
		v := ch.Q[0]
		ch.Q = ch.Q[1:]
		if ins.CommaOk {
			return Tuple{v, tTrue}
		}
		return v
	}
	in.fail("unop %v on %T", ins.Op, x)
	return nil
}

func (in *Interp) runGoroutines() {
	for len(in.goq) > 0 {
		g := in.goq[0]
		in.goq = in.goq[1:]
		g()
	}
}

func (in *Interp) binop(op token.Token, xt types.Type, x, y Value) Value {
	switch a := x.(type) {
	case *Term:
		b := y.(*Term)
		if a.W == 0 { // bool
			switch op {
			case token.EQL:
				return Eq(a, b)
			case token.NEQ:
				return Not(Eq(a, b))
			case token.AND, token.LAND:
				return And(a, b)
			case token.OR, token.LOR:
				return Or(a, b)
			}
			in.fail("bool binop %v", op)
		}
		_, sg, _ := intWidth(xt)
		if op == token.SHL || op == token.SHR {
			// shift count may have different width; Go: count unsigned (or signed non-negative)
			if b.W < a.W {
				b = ZeroExt(a.W-b.W, b)
			} else if b.W > a.W {
				// if high bits set => result as if shift >= width
				hi := Extract(b.W-1, a.W, b)
				big0 := BVCmp("=", hi, BVConstU(b.W-a.W, 0))
				lo := Extract(a.W-1, 0, b)
				b = Ite(big0, lo, BVConstU(a.W, uint64(a.W)))
			}
			if op == token.SHL {
				return BVBin("bvshl", a, b)
			}
			if sg {
				return BVBin("bvashr", a, b)
			}
			return BVBin("bvlshr", a, b)
		}
		switch op {
		case token.ADD:
			return BVBin("bvadd", a, b)
		case token.SUB:
			return BVBin("bvsub", a, b)
		case token.MUL:
			return BVBin("bvmul", a, b)
		case token.QUO, token.REM:
			in.ctx.PanicIf(BVCmp("=", b, BVConstU(b.W, 0)), "integer divide by zero")
			if op == token.QUO {
				if sg {
					return BVBin("bvsdiv", a, b)
				}
				return BVBin("bvudiv", a, b)
			}
			if sg {
				return BVBin("bvsrem", a, b)
			}
			return BVBin("bvurem", a, b)
		case token.AND:
			return BVBin("bvand", a, b)
		case token.OR:
			return BVBin("bvor", a, b)
		case token.XOR:
			return BVBin("bvxor", a, b)
		case token.AND_NOT:
			return BVBin("bvand", a, BVBin("bvxor", b, BVConst(b.W, mask(b.W))))
		case token.EQL:
			return BVCmp("=", a, b)
		case token.NEQ:
			return Not(BVCmp("=", a, b))
		case token.LSS:
			if sg {
				return BVCmp("bvslt", a, b)
			}
			return BVCmp("bvult", a, b)
		case token.LEQ:
			if sg {
				return BVCmp("bvsle", a, b)
			}
			return BVCmp("bvule", a, b)
		case token.GTR:
			if sg {
				return BVCmp("bvsgt", a, b)
			}
			return BVCmp("bvugt", a, b)
		case token.GEQ:
			if sg {
				return BVCmp("bvsge", a, b)
			}
			return BVCmp("bvuge", a, b)
		}
	case Float:
		b := y.(Float)
		if a.T != nil || b.T != nil {
			fw := -64
			if (a.T != nil && a.T.W == -32) || (b.T != nil && b.T.W == -32) {
				fw = -32
			}
			at, bt := floatTermW(a, fw), floatTermW(b, fw)
			switch op {
			case token.MUL:
				return Float{T: mk("fp.mul", fw, at, bt)}
			case token.ADD:
				return Float{T: mk("fp.add", fw, at, bt)}
			case token.SUB:
				return Float{T: mk("fp.sub", fw, at, bt)}
			case token.QUO:
				return Float{T: mk("fp.div", fw, at, bt)}
			case token.LSS:
				return mk("fp.lt", 0, at, bt)
			case token.LEQ:
				return mk("fp.leq", 0, at, bt)
			case token.GTR:
				return mk("fp.gt", 0, at, bt)
			case token.GEQ:
				return mk("fp.geq", 0, at, bt)
			case token.EQL:
				return mk("fp.eq", 0, at, bt)
			}
			in.fail("symbolic float op %v", op)
		}
		if a.Is32 || b.Is32 {
			x, y := float32(a.F), float32(b.F)
			switch op {
			case token.ADD:
				return Float{F: float64(x + y), Is32: true}
			case token.SUB:
				return Float{F: float64(x - y), Is32: true}
			case token.MUL:
				return Float{F: float64(x * y), Is32: true}
			case token.QUO:
				return Float{F: float64(x / y), Is32: true}
			}
		}
		switch op {
		case token.ADD:
			return Float{F: a.F + b.F}
		case token.SUB:
			return Float{F: a.F - b.F}
		case token.MUL:
			return Float{F: a.F * b.F}
		case token.QUO:
			return Float{F: a.F / b.F}
		case token.EQL:
			return BoolConst(a.F == b.F)
		case token.NEQ:
			return BoolConst(a.F != b.F)
		case token.LSS:
			return BoolConst(a.F < b.F)
		case token.LEQ:
			return BoolConst(a.F <= b.F)
		case token.GTR:
			return BoolConst(a.F > b.F)
		case token.GEQ:
			return BoolConst(a.F >= b.F)
		}
	case Str:
		b := y.(Str)
		switch op {
		case token.ADD:
			n := make([]*Term, 0, len(a.B)+len(b.B))
			n = append(append(n, a.B...), b.B...)
			return Str{n}
		case token.EQL:
			return strEq(a, b)
		case token.NEQ:
			return Not(strEq(a, b))
		case token.LSS, token.LEQ, token.GTR, token.GEQ:
			as, ok1 := a.Concrete()
			bs, ok2 := b.Concrete()
			if !(ok1 && ok2) {
				c := lexCmp(a.B, b.B)
				z := BVConstI(64, 0)
				switch op {
				case token.LSS:
					return BVCmp("bvslt", c, z)
				case token.LEQ:
					return BVCmp("bvsle", c, z)
				case token.GTR:
					return BVCmp("bvsgt", c, z)
				case token.GEQ:
					return BVCmp("bvsge", c, z)
				}
			}
			if ok1 && ok2 {
				switch op {
				case token.LSS:
					return BoolConst(as < bs)
				case token.LEQ:
					return BoolConst(as <= bs)
				case token.GTR:
					return BoolConst(as > bs)
				case token.GEQ:
					return BoolConst(as >= bs)
				}
			}
		}
	}
	if op == token.EQL {
		return in.equals(x, y)
	}
	if op == token.NEQ {
		return Not(in.equals(x, y))
	}
	in.fail("binop %v on %T,%T", op, x, y)
	return nil
}

// wholeOf recognises a byte sequence that is exactly the big-endian bytes of one wide term X
// (the shape of every modelled hash value) or entirely constant, and returns X / the constant.
func wholeOf(bs []*Term) *Term {
	n := len(bs)
	if n < 2 {
		return nil
	}
	allConst := true
	for _, b := range bs {
		if !b.IsConst() {
			allConst = false
			break
		}
	}
	if allConst {
		v := new(big.Int)
		for _, b := range bs {
			v.Lsh(v, 8)
			v.Or(v, b.Val)
		}
		return BVConst(8*n, v)
	}
	var x *Term
	for k, b := range bs {
		if b.Op != "extract" || b.Args[0].W != 8*n || b.P[0] != 8*(n-k)-1 || b.P[1] != 8*(n-k)-8 {
			return nil
		}
		if x == nil {
			x = b.Args[0]
		} else if x != b.Args[0] {
			return nil
		}
	}
	return x
}

func bytesEqTerm(a, b []*Term) *Term {
	if len(a) != len(b) {
		return tFalse
	}
	if x := wholeOf(a); x != nil {
		if y := wholeOf(b); y != nil {
			if x.IsConst() && !y.IsConst() {
				x, y = y, x
			} else if !x.IsConst() && !y.IsConst() && x.id > y.id {
				x, y = y, x
			}
			return BVCmp("=", x, y)
		}
	}
	r := tTrue
	for i := range a {
		r = And(r, BVCmp("=", a[i], b[i]))
	}
	return r
}

func strEq(a, b Str) *Term {
	if len(a.B) != len(b.B) {
		return tFalse
	}
	if len(a.B) >= 16 {
		return bytesEqTerm(a.B, b.B)
	}
	r := tTrue
	for i := range a.B {
		r = And(r, BVCmp("=", a.B[i], b.B[i]))
	}
	return r
}

func (in *Interp) equals(x, y Value) *Term {
	if g, ok := x.(Guarded); ok {
		r := tFalse
		for _, c := range g.Cases {
			r = Or(r, And(c.Cond, in.equals(c.V, y)))
		}
		return r
	}
	if g, ok := y.(Guarded); ok {
		r := tFalse
		for _, c := range g.Cases {
			r = Or(r, And(c.Cond, in.equals(x, c.V)))
		}
		return r
	}
	switch a := x.(type) {
	case *Term:
		return Eq(a, y.(*Term))
	case Str:
		return strEq(a, y.(Str))
	case Float:
		return BoolConst(a.F == y.(Float).F)
	case *Value:
		return BoolConst(a == y.(*Value))
	case Iface:
		b := y.(Iface)
		if a.T == nil || b.T == nil {
			return BoolConst(a.T == nil && b.T == nil)
		}
		if !types.Identical(a.T, b.T) {
			return tFalse
		}
		return in.equals(a.V, b.V)
	case Struct:
		b := y.(Struct)
		r := tTrue
		for i := range a {
			r = And(r, in.equals(a[i], b[i]))
		}
		return r
	case Array:
		b := y.(Array)
		r := tTrue
		for i := range a {
			r = And(r, in.equals(a[i], b[i]))
		}
		return r
	case *Map:
		return BoolConst(a == y.(*Map))
	case *Chan:
		return BoolConst(a == y.(*Chan))
	case Slice: // only comparison with nil
		return BoolConst(a.Nil && y.(Slice).Nil)
	case *ssa.Function:
		if b, ok := y.(*ssa.Function); ok {
			return BoolConst(a == b)
		}
		return BoolConst(a == nil && y == nil)
	case *Closure:
		if b, ok := y.(*ssa.Function); ok && b == nil {
			return tFalse
		}
	case nil:
		return BoolConst(y == nil)
	case *SyncObj:
		return tTrue
	case BigInt:
		return IntCmp("=", a.T, y.(BigInt).T)
	}
	in.fail("equals on %T,%T", x, y)
	return nil
}


// tryMerge handles  if c { pure } else { pure }  diamonds/triangles by evaluating both sides and
// merging the join block's phis with ite, instead of forking the path.
func (fr *frame) tryMerge(c *Term) bool {
	b := fr.block
	t, e := b.Succs[0], b.Succs[1]
	var join *ssa.BasicBlock
	pureSide := func(x *ssa.BasicBlock) (*ssa.BasicBlock, bool) {
		if len(x.Preds) != 1 || len(x.Succs) != 1 {
			return nil, false
		}
		for _, ins := range x.Instrs {
			switch i := ins.(type) {
			case *ssa.BinOp:
				if i.Op == token.QUO || i.Op == token.REM {
					return nil, false
				}
			case *ssa.UnOp:
				if i.Op == token.ARROW {
					return nil, false
				}
			case *ssa.IndexAddr:
				if _, isConst := i.Index.(*ssa.Const); !isConst {
					return nil, false
				}
			case *ssa.Call:
				if bi, ok := i.Call.Value.(*ssa.Builtin); !ok || (bi.Name() != "len" && bi.Name() != "cap") {
					return nil, false
				}
			case *ssa.Convert, *ssa.ChangeType, *ssa.Jump, *ssa.DebugRef, *ssa.Phi, *ssa.FieldAddr, *ssa.Field:
			default:
				return nil, false
			}
		}
		return x.Succs[0], true
	}
	tj, tp := pureSide(t)
	ej, ep := pureSide(e)
	var tPred, ePred *ssa.BasicBlock
	switch {
	case tp && ep && tj == ej:
		join, tPred, ePred = tj, t, e
	case tp && tj == e:
		join, tPred, ePred = e, t, b
	case ep && ej == t:
		join, tPred, ePred = t, b, e
	default:
		return false
	}
	if len(join.Preds) != 2 {
		return false
	}
	evalSide := func(x *ssa.BasicBlock) {
		if x == b {
			return
		}
		for _, ins := range x.Instrs {
			if _, ok := ins.(*ssa.Jump); ok {
				break
			}
			fr.prev = b
			fr.exec(ins)
		}
	}
	evalSide(tPred)
	evalSide(ePred)
	vals := map[*ssa.Phi]Value{}
	for _, ins := range join.Instrs {
		phi, ok := ins.(*ssa.Phi)
		if !ok {
			break
		}
		var tv, ev Value
		for i, p := range join.Preds {
			if p == tPred {
				tv = fr.get(phi.Edges[i])
			}
			if p == ePred {
				ev = fr.get(phi.Edges[i])
			}
		}
		tt, ok1 := tv.(*Term)
		et, ok2 := ev.(*Term)
		if !ok1 || !ok2 {
			return false
		}
		vals[phi] = Ite(c, tt, et)
	}
	for phi, v := range vals {
		fr.env[phi] = v
	}
	fr.skipPhis = true
	fr.block = join
	return true
}


// floatTermW gives the term of f in the float format fw (-32 / -64); concrete values become literals.
func floatTermW(f Float, fw int) *Term {
	if f.T != nil {
		return f.T
	}
	if fw == -32 {
		return FPConst32(math.Float32bits(float32(f.F)))
	}
	return FPConst(math.Float64bits(f.F))
}

func floatTerm(f Float) *Term {
	if f.T != nil {
		return f.T
	}
	return FPConst(math.Float64bits(f.F))
}
