package main

import (
	"fmt"
	"math/big"
	"os"
	"path/filepath"
	"sort"
	"strings"
	"sync"
	"time"

	"golang.org/x/tools/go/packages"
	"golang.org/x/tools/go/ssa"
	"golang.org/x/tools/go/ssa/ssautil"
)

// Unit = one package of the repo plus the harness files injected into it by overlay.
type Unit struct {
	Pkg     string   `json:"pkg"`     // e.g. ./epochStart/metachain
	Harness []string `json:"harness"` // paths relative to the verif root
}

type loaded struct {
	prog    *ssa.Program
	pkgOf   map[string]*ssa.Package // unit pkg pattern -> ssa package
	pkgName map[string]string
	loadS   float64
}

// verifDecls is the companion file: body-less declarations the engine intercepts.
const verifDecls = `package %s

import "math/big"

func verifU64(name string) uint64
func verifU32(name string) uint32
func verifU16(name string) uint16
func verifU8(name string) uint8
func verifI64(name string) int64
func verifI32(name string) int32
func verifInt(name string) int
func verifBool(name string) bool
func verifBytes(name string, n int) []byte
func verifString(name string, n int) string
func verifChoice(name string, n int) int
func verifBig(name string) *big.Int
func verifParam(name string) int
func verifAssume(c bool)
func verifAssert(c bool, msg string)
func verifKnown(id string, c bool)
func verifReach(label string)
func verifNoPanic(f func(), msg string)
func verifRaceWatch(obj interface{})
func verifRaceBegin(tag string)
func verifRaceEnd()
func verifRaceCheck()
func verifExplore()
func verifGo(f func())
func verifYield()
func verifJoin()
func verifMapOrder(on bool)
func verifNote(msg string)
func verifFill(obj interface{}, wide int, tag string) int
func verifIsReplay() bool
func verifFmtExact(on bool)
func verifIteByte(c bool, a, b byte) byte
func verifIteU64(c bool, a, b uint64) uint64
`

func harnessPath(h string) string {
	if filepath.IsAbs(h) {
		return h
	}
	return filepath.Join(verifRoot, h)
}

func pkgDirOf(pat string) string { return strings.TrimPrefix(pat, "./") }

func loadUnits(units []Unit) (*loaded, error) {
	t0 := time.Now()
	overlay := map[string][]byte{}
	var pats []string
	for _, u := range units {
		pats = append(pats, u.Pkg)
		for i, h := range u.Harness {
			b, err := os.ReadFile(harnessPath(h))
			if err != nil {
				return nil, err
			}
			overlay[filepath.Join(repoDir, pkgDirOf(u.Pkg), fmt.Sprintf("zz_verif_%d.go", i))] = b
		}
	}
	// package names are needed for the declaration file: read them from the harness source
	for _, u := range units {
		name := ""
		if len(u.Harness) > 0 {
			b, _ := os.ReadFile(harnessPath(u.Harness[0]))
			for _, l := range strings.Split(string(b), "\n") {
				if strings.HasPrefix(l, "package ") {
					name = strings.TrimSpace(strings.TrimPrefix(l, "package "))
					break
				}
			}
		}
		if name == "" {
			return nil, fmt.Errorf("no package clause in harness of %s", u.Pkg)
		}
		overlay[filepath.Join(repoDir, pkgDirOf(u.Pkg), "zz_verif_decl.go")] = []byte(fmt.Sprintf(verifDecls, name))
	}
	cfg := &packages.Config{Mode: packages.LoadAllSyntax, Dir: repoDir,
		Env: append(os.Environ(), "GOFLAGS=-mod=mod", "GOPROXY=off", "GOSUMDB=off"), Overlay: overlay}
	pkgs, err := packages.Load(cfg, pats...)
	if err != nil {
		return nil, err
	}
	var errs []string
	for _, p := range pkgs {
		for _, e := range p.Errors {
			errs = append(errs, e.Error())
		}
	}
	if len(errs) > 0 {
		return nil, fmt.Errorf("package errors:\n  %s", strings.Join(errs, "\n  "))
	}
	prog, spkgs := ssautil.AllPackages(pkgs, ssa.InstantiateGenerics)
	prog.Build()
	ld := &loaded{prog: prog, pkgOf: map[string]*ssa.Package{}, pkgName: map[string]string{}}
	for i, p := range pkgs {
		for _, u := range units {
			if p.PkgPath == "github.com/ElrondNetwork/elrond-go/"+pkgDirOf(u.Pkg) {
				ld.pkgOf[u.Pkg] = spkgs[i]
				ld.pkgName[u.Pkg] = p.Name
			}
		}
	}
	for _, u := range units {
		if ld.pkgOf[u.Pkg] == nil {
			return nil, fmt.Errorf("package %s not loaded", u.Pkg)
		}
	}
	ld.loadS = time.Since(t0).Seconds()
	return ld, nil
}

type runOpts struct {
	Workers   int
	MaxPaths  int
	TimeoutMs int
	Params    map[string]int64
	Known     map[string]string // known-finding id -> "exclude" | "assume"
	SmtLog    string
	ConcCap   int
	MaxWallS  int
	Summaries map[string]*ssa.Function
	UFMul     bool
}

type runResult struct {
	ex         *Explorer
	queries    int
	solverTime time.Duration
	wall       time.Duration
	restarts   int
}

func runEntry(prog *ssa.Program, fn *ssa.Function, o runOpts) *runResult {
	if o.Workers <= 0 {
		o.Workers = 8
	}
	if o.MaxPaths <= 0 {
		o.MaxPaths = 100000
	}
	if o.TimeoutMs <= 0 {
		o.TimeoutMs = 10000
	}
	if o.ConcCap <= 0 {
		o.ConcCap = 64
	}
	q := newWorkQueue(o.MaxPaths)
	if o.MaxWallS > 0 {
		q.deadline = time.Now().Add(time.Duration(o.MaxWallS) * time.Second)
	}
	exs := make([]*Explorer, o.Workers)
	var wg sync.WaitGroup
	tRun := time.Now()
	for w := 0; w < o.Workers; w++ {
		s := NewSolver(o.TimeoutMs)
		if o.UFMul {
			s.UFMul = true
			s.Reset()
		}
		if o.SmtLog != "" && w == 0 {
			f, _ := os.Create(o.SmtLog)
			s.Log = f
		}
		exs[w] = &Explorer{prog: prog, entry: fn, solver: s, q: q, Reached: map[string]int{}, Errors: map[string]int{}, Panics: map[string]int{}, FuncsHit: map[string]int{}, InitFailures: map[string]string{}, ForkSites: map[string]int{}, Notes: map[string]int{}, QuerySites: map[string]int{}, MaxPaths: o.MaxPaths, ConcCap: o.ConcCap, Params: o.Params, Known: o.Known, Summaries: o.Summaries}
		wg.Add(1)
		go func(ex *Explorer) { defer wg.Done(); ex.Run(); ex.solver.Close() }(exs[w])
	}
	wg.Wait()
	res := &runResult{wall: time.Since(tRun)}
	ex := exs[0]
	res.queries = ex.solver.Queries
	res.solverTime = ex.solver.Time
	res.restarts = ex.solver.Restarts
	for _, o := range exs[1:] {
		ex.Paths += o.Paths
		ex.Cut += o.Cut
		ex.Asserts += o.Asserts
		ex.AssertQueries += o.AssertQueries
		ex.Unknown += o.Unknown
		ex.BoundHits += o.BoundHits
		ex.Steps += o.Steps
		ex.Merges += o.Merges
		ex.ExactRechecks += o.ExactRechecks
		ex.AbsDecided += o.AbsDecided
		ex.SimpDecided += o.SimpDecided
		ex.PathsWithAsserts += o.PathsWithAsserts
		ex.Viol = append(ex.Viol, o.Viol...)
		res.queries += o.solver.Queries
		res.solverTime += o.solver.Time
		res.restarts += o.solver.Restarts
		for k, v := range o.Reached {
			ex.Reached[k] += v
		}
		for k, v := range o.Errors {
			ex.Errors[k] += v
		}
		for k, v := range o.Panics {
			ex.Panics[k] += v
		}
		for k, v := range o.FuncsHit {
			ex.FuncsHit[k] += v
		}
		for k, v := range o.ForkSites {
			ex.ForkSites[k] += v
		}
		for k, v := range o.UnknownSites {
			ex.noteUnknown(k)
			ex.UnknownSites[k] += v - 1
		}
		for k, v := range o.QuerySites {
			ex.QuerySites[k] += v
		}
		for k, v := range o.Notes {
			ex.Notes[k] += v
		}
		for k, v := range o.InitFailures {
			ex.InitFailures[k] = v
		}
		if len(ex.Samples) < 4 {
			ex.Samples = append(ex.Samples, o.Samples...)
		}
	}
	ex.BoundHits += q.dropped
	res.ex = ex
	return res
}

func modelString(m map[string]*big.Int) string {
	var ks []string
	for k := range m {
		ks = append(ks, k)
	}
	sort.Strings(ks)
	var sb strings.Builder
	for _, k := range ks {
		fmt.Fprintf(&sb, " %s=%s", k, m[k])
	}
	return sb.String()
}
