package main

import "fmt"

func cmdSelftest(args []string) int {
	fmt.Println("selftest: not implemented yet")
	return 0
}
