package main

import (
	"fmt"
	"path/filepath"
	"sort"
	"strings"

	"golang.org/x/tools/go/ssa"
)

// selftest: the translator's own test. Concrete computations through real repository code (harness
// selftest_harness.go, functions Verif_Self_*), each compared with a string that the compiled code produced:
// the interpreter must reach the same result (no violation, exactly one path, no unsupported construct),
// and the native run of the same function must confirm that the expected string is still what the real
// build computes.
func cmdSelftest(args []string) int {
	u := Unit{Pkg: "./marshal/factory", Harness: []string{"harness/selftest_harness.go"}}
	ld, err := loadUnits([]Unit{u})
	if err != nil {
		fmt.Println("selftest: LOAD ERROR", err)
		return 2
	}
	var entries []string
	for name, m := range ld.pkgOf[u.Pkg].Members {
		if _, ok := m.(*ssa.Function); ok && strings.HasPrefix(name, "Verif_Self_") {
			entries = append(entries, name)
		}
	}
	sort.Strings(entries)
	bad := 0
	for _, en := range entries {
		fn := ld.pkgOf[u.Pkg].Func(en)
		res := runEntry(ld.prog, fn, runOpts{Workers: 1, MaxPaths: 10, TimeoutMs: 10000, MaxWallS: 120})
		ex := res.ex
		engineOK := ex.Paths == 1 && len(ex.Viol) == 0 && len(ex.Errors) == 0 && len(ex.Panics) == 0 && len(ex.InitFailures) == 0 && ex.Reached["end"] == 1
		nativeFailed, out := replayNative(ld, u, en, Violation{Msg: "<selftest>"}, nil, filepath.Join(verifRoot, "out", "selftest", en))
		nativeOK := !nativeFailed && strings.Contains(out, "ok") && !strings.Contains(out, "VERIF-ASSERT-FAILED") && !strings.Contains(out, "FAIL")
		status := "agree"
		if !engineOK || !nativeOK {
			status = "DISAGREE"
			bad++
		}
		fmt.Printf("selftest %-22s interpreter=%v native=%v  %s\n", en, engineOK, nativeOK, status)
		if !engineOK {
			fmt.Printf("   paths=%d violations=%d errors=%v panics=%v init=%v reached=%v\n", ex.Paths, len(ex.Viol), ex.Errors, ex.Panics, ex.InitFailures, ex.Reached)
		}
		if !nativeOK {
			fmt.Println("   native output:", strings.TrimSpace(out))
		}
	}
	if len(entries) == 0 {
		fmt.Println("selftest: no Verif_Self_ functions found")
		return 2
	}
	if bad > 0 {
		return 1
	}
	fmt.Printf("selftest: %d computations, interpreter and compiled code agree\n", len(entries))
	return 0
}
