package main

import "golang.org/x/tools/go/ssa"

// strings.Builder model: the struct's buf field (index 1) holds the bytes.
func sbBuf(a []Value) *Value { return &(*(a[0].(*Value))).(Struct)[1] }

func initStrBuilder() {
	intrinsics["(*strings.Builder).Grow"] = func(in *Interp, fn *ssa.Function, a []Value) Value { return nil }
	intrinsics["(*strings.Builder).Reset"] = func(in *Interp, fn *ssa.Function, a []Value) Value { *sbBuf(a) = Slice{Nil: true}; return nil }
	intrinsics["(*strings.Builder).Len"] = func(in *Interp, fn *ssa.Function, a []Value) Value {
		return BVConstI(64, int64(len((*sbBuf(a)).(Slice).A)))
	}
	intrinsics["(*strings.Builder).String"] = func(in *Interp, fn *ssa.Function, a []Value) Value {
		s := (*sbBuf(a)).(Slice)
		b := make([]*Term, len(s.A))
		for i := range s.A {
			b[i] = s.A[i].(*Term)
		}
		return Str{b}
	}
	intrinsics["(*strings.Builder).WriteString"] = func(in *Interp, fn *ssa.Function, a []Value) Value {
		p := sbBuf(a)
		s := (*p).(Slice)
		str := a[1].(Str)
		for _, t := range str.B {
			s.A = append(s.A, t)
		}
		s.Nil = false
		*p = s
		return Tuple{BVConstI(64, int64(len(str.B))), Iface{}}
	}
	intrinsics["(*strings.Builder).WriteByte"] = func(in *Interp, fn *ssa.Function, a []Value) Value {
		p := sbBuf(a)
		s := (*p).(Slice)
		s.A = append(s.A, a[1].(*Term))
		s.Nil = false
		*p = s
		return Iface{}
	}
	intrinsics["(*strings.Builder).Write"] = func(in *Interp, fn *ssa.Function, a []Value) Value {
		p := sbBuf(a)
		s := (*p).(Slice)
		src := a[1].(Slice)
		s.A = append(s.A, src.A...)
		s.Nil = false
		*p = s
		return Tuple{BVConstI(64, int64(len(src.A))), Iface{}}
	}
}
