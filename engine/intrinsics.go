package main

import (
	"sync"
	"math"
	blake2bLib "golang.org/x/crypto/blake2b"
	"fmt"
	"go/types"
	"math/big"
	"math/bits"
	"strings"

	"golang.org/x/tools/go/ssa"
)

type intrinsic func(in *Interp, fn *ssa.Function, args []Value) Value

var intrinsics map[string]intrinsic

func syncObj(v Value) *SyncObj { return (*(v.(*Value))).(*SyncObj) }

func init() {
	intrinsics = map[string]intrinsic{
		"(*sync.Mutex).Lock":      func(in *Interp, fn *ssa.Function, a []Value) Value { in.lock(syncObj(a[0]), lockW); return nil },
		"(*sync.Mutex).Unlock":    func(in *Interp, fn *ssa.Function, a []Value) Value { in.unlock(syncObj(a[0])); return nil },
		"(*sync.RWMutex).Lock":    func(in *Interp, fn *ssa.Function, a []Value) Value { in.lock(syncObj(a[0]), lockW); return nil },
		"(*sync.RWMutex).Unlock":  func(in *Interp, fn *ssa.Function, a []Value) Value { in.unlock(syncObj(a[0])); return nil },
		"(*sync.RWMutex).RLock":   func(in *Interp, fn *ssa.Function, a []Value) Value { in.lock(syncObj(a[0]), lockR); return nil },
		"(*sync.RWMutex).RUnlock": func(in *Interp, fn *ssa.Function, a []Value) Value { in.unlock(syncObj(a[0])); return nil },
		"(*sync.WaitGroup).Add": func(in *Interp, fn *ssa.Function, a []Value) Value {
			syncObj(a[0]).Count += int(concInt(a[1]))
			return nil
		},
		"(*sync.WaitGroup).Done": func(in *Interp, fn *ssa.Function, a []Value) Value { syncObj(a[0]).Count--; return nil },
		// Wait runs started goroutines until the counter is zero, newest first (the goroutines this wait group is
		// waiting for were started last); older, unrelated goroutines stay pending
		"(*sync.WaitGroup).Wait": func(in *Interp, fn *ssa.Function, a []Value) Value {
			wg := syncObj(a[0])
			for wg.Count > 0 && len(in.goq) > 0 {
				g := in.goq[len(in.goq)-1]
				in.goq = in.goq[:len(in.goq)-1]
				g()
			}
			return nil
		},
		"fmt.Sprint":             func(in *Interp, fn *ssa.Function, a []Value) Value { return concreteStr("<fmt>") },
		"fmt.Errorf":             fmtErrorf,
		"time.Now":               func(in *Interp, fn *ssa.Function, a []Value) Value { return zero(fn.Signature.Results().At(0).Type()) },
		// environment: the read succeeds and fills the whole buffer (its content is arbitrary for the callers and left as found)
		"crypto/rand.Read": func(in *Interp, fn *ssa.Function, a []Value) Value {
			return Tuple{BVConstI(64, int64(len(a[0].(Slice).A))), Iface{}}
		},
		"time.Sleep":             func(in *Interp, fn *ssa.Function, a []Value) Value { in.runGoroutines(); return nil }, // sleeping lets every started goroutine run to completion
		"time.Since":             func(in *Interp, fn *ssa.Function, a []Value) Value { return BVConstI(64, 0) },
		"strings.Repeat": func(in *Interp, fn *ssa.Function, a []Value) Value {
			s, _ := a[0].(Str).Concrete()
			return concreteStr(strings.Repeat(s, int(concInt(a[1]))))
		},
		"math/bits.OnesCount8": func(in *Interp, fn *ssa.Function, a []Value) Value {
			x := a[0].(*Term)
			if x.IsConst() {
				return BVConstI(64, int64(bits.OnesCount8(uint8(x.Val.Uint64()))))
			}
			r := BVConstU(64, 0)
			for i := 0; i < 8; i++ {
				r = BVBin("bvadd", r, ZeroExt(63, Extract(i, i, x)))
			}
			return r
		},
		"math/bits.Len64": func(in *Interp, fn *ssa.Function, a []Value) Value { return bitsLen(a[0].(*Term)) },
		"math/bits.Len32": func(in *Interp, fn *ssa.Function, a []Value) Value { return bitsLen(a[0].(*Term)) },
		"math/bits.Len16": func(in *Interp, fn *ssa.Function, a []Value) Value { return bitsLen(a[0].(*Term)) },
		"math/bits.Len8":  func(in *Interp, fn *ssa.Function, a []Value) Value { return bitsLen(a[0].(*Term)) },
		"math/bits.Len":   func(in *Interp, fn *ssa.Function, a []Value) Value { return bitsLen(a[0].(*Term)) },
		"(github.com/ElrondNetwork/elrond-go/core.PeerID).Pretty": func(in *Interp, fn *ssa.Function, a []Value) Value {
			// injective rendering of the raw id (the real one is base58); only equality/containment of the text matters
			if s, ok := a[0].(Str).Concrete(); ok {
				return concreteStr("pid:" + s)
			}
			return Str{append(concreteStr("pid:").B, a[0].(Str).B...)}
		},
		"internal/bytealg.MakeNoZero": func(in *Interp, fn *ssa.Function, a []Value) Value {
			n := int(concInt(a[0]))
			out := make([]Value, n)
			for i := range out {
				out[i] = BVConstU(8, 0)
			}
			return Slice{A: out}
		},
		"encoding/json.Marshal": func(in *Interp, fn *ssa.Function, a []Value) Value {
			// reflection-based: not encodable. Opaque text (only acceptable where the result is logged); noted in the evidence.
			in.ctx.ex.Notes["encoding/json.Marshal made opaque"]++
			b := concreteStr("<json>")
			out := make([]Value, len(b.B))
			for i := range out {
				out[i] = b.B[i]
			}
			return Tuple{Slice{A: out}, Iface{}}
		},
		"runtime.Callers": func(in *Interp, fn *ssa.Function, a []Value) Value { return BVConstI(64, 0) }, // no stack frames (only used for error stack traces)
		"runtime.Caller": func(in *Interp, fn *ssa.Function, a []Value) Value {
			return Tuple{BVConstU(64, 0), concreteStr("?"), BVConstI(64, 0), tFalse}
		},
		"bytes.Compare": func(in *Interp, fn *ssa.Function, a []Value) Value {
			x, y := a[0].(Slice), a[1].(Slice)
			// lexicographic comparison as an ite chain (lengths are concrete)
			n := len(x.A)
			if len(y.A) < n {
				n = len(y.A)
			}
			tail := BVConstI(64, 0)
			if len(x.A) < len(y.A) {
				tail = BVConstI(64, -1)
			} else if len(x.A) > len(y.A) {
				tail = BVConstI(64, 1)
			}
			r := tail
			for i := n - 1; i >= 0; i-- {
				xb, yb := x.A[i].(*Term), y.A[i].(*Term)
				r = Ite(BVCmp("bvult", xb, yb), BVConstI(64, -1), Ite(BVCmp("bvugt", xb, yb), BVConstI(64, 1), r))
			}
			return r
		},
		"bytes.Equal": func(in *Interp, fn *ssa.Function, a []Value) Value {
			x, y := a[0].(Slice), a[1].(Slice)
			if len(x.A) != len(y.A) {
				return tFalse
			}
			xs, ys := make([]*Term, len(x.A)), make([]*Term, len(y.A))
			for i := range x.A {
				xs[i], ys[i] = x.A[i].(*Term), y.A[i].(*Term)
			}
			return bytesEqTerm(xs, ys)
		},
		"(*github.com/ElrondNetwork/elrond-go/hashing/blake2b.blake2b).Compute": func(in *Interp, fn *ssa.Function, a []Value) Value {
			str, ok := a[1].(Str).Concrete()
			if !ok {
				return in.ufHash(a[1].(Str))
			}
			h := blake2bLib.Sum256([]byte(str))
			hc := BVConst(256, new(big.Int).SetBytes(h[:]))
			// the natively computed digest takes part in the injectivity axioms against every earlier (symbolic) application
			for _, prev := range in.ctx.hashApps {
				if !prev.out.IsConst() {
					in.ctx.add(Eq(strEq(prev.arg, a[1].(Str)), BVCmp("=", prev.out, hc)))
				}
			}
			in.ctx.hashApps = append(in.ctx.hashApps, hashApp{a[1].(Str), hc})
			out := make([]Value, 32)
			for i := range out {
				out[i] = BVConstU(8, uint64(h[i]))
			}
			return Slice{A: out}
		},
		"(*github.com/ElrondNetwork/elrond-go/hashing/blake2b.blake2b).computeEmptyHash": func(in *Interp, fn *ssa.Function, a []Value) Value {
			h := blake2bLib.Sum256(nil)
			out := make([]Value, 32)
			for i := range out {
				out[i] = BVConstU(8, uint64(h[i]))
			}
			return Slice{A: out}
		},
		"(*sync/atomic.Uint64).Load": nil,
	}
	delete(intrinsics, "(*sync/atomic.Uint64).Load")
	initBig()
	initFmt()
	initStrBuilder()
	initStrIntr()
	initJSON()
	initPool()
	// sync/atomic on plain words
	for _, w := range []struct {
		n string
		w int
	}{{"Int32", 32}, {"Uint32", 32}, {"Int64", 64}, {"Uint64", 64}} {
		w := w
		intrinsics["sync/atomic.Load"+w.n] = func(in *Interp, fn *ssa.Function, a []Value) Value {
			return *(a[0].(*Value))
		}
		intrinsics["sync/atomic.Store"+w.n] = func(in *Interp, fn *ssa.Function, a []Value) Value { *(a[0].(*Value)) = a[1]; return nil }
		intrinsics["sync/atomic.Add"+w.n] = func(in *Interp, fn *ssa.Function, a []Value) Value {
			p := a[0].(*Value)
			*p = BVBin("bvadd", (*p).(*Term), a[1].(*Term))
			return *p
		}
		intrinsics["sync/atomic.Swap"+w.n] = func(in *Interp, fn *ssa.Function, a []Value) Value {
			p := a[0].(*Value)
			old := *p
			*p = a[1]
			return old
		}
		intrinsics["sync/atomic.CompareAndSwap"+w.n] = func(in *Interp, fn *ssa.Function, a []Value) Value {
			p := a[0].(*Value)
			c := BVCmp("=", (*p).(*Term), a[1].(*Term))
			if in.ctx.Branch(c) {
				*p = a[2]
				return tTrue
			}
			return tFalse
		}
	}
}

func fmtErrorf(in *Interp, fn *ssa.Function, a []Value) Value {
	// build *fmt.wrapError{msg, err} if a %w argument exists, else *errors.errorString
	var wrapped Value
	if len(a) > 1 {
		for _, x := range a[1].(Slice).A {
			if ifc, ok := x.(Iface); ok && ifc.T != nil {
				if types.Implements(ifc.T, errorIface) {
					wrapped = ifc
				}
			}
		}
	}
	fmtPkg := in.prog.ImportedPackage("fmt")
	if wrapped != nil && fmtPkg != nil {
		t := fmtPkg.Pkg.Scope().Lookup("wrapError").Type()
		var v Value = Struct{concreteStr("<wrapped error>"), wrapped}
		return Iface{T: types.NewPointer(t), V: &v}
	}
	errPkg := in.prog.ImportedPackage("errors")
	t := errPkg.Pkg.Scope().Lookup("errorString").Type()
	var v Value = Struct{concreteStr("<error>")}
	return Iface{T: types.NewPointer(t), V: &v}
}

// bitsLen: minimum number of bits to represent x (0 for x == 0), as a 64-bit int term.
func bitsLen(x *Term) *Term {
	if x.IsConst() {
		return BVConstI(64, int64(x.Val.BitLen()))
	}
	r := BVConstI(64, 0)
	for i := 0; i < x.W; i++ {
		r = Ite(BVCmp("=", Extract(i, i, x), BVConstU(1, 1)), BVConstI(64, int64(i+1)), r)
	}
	return r
}

var errorIface = types.Universe.Lookup("error").Type().Underlying().(*types.Interface)

// sort.Slice / SliceStable / Sort-by-closure model: insertion sort calling the interpreted less function back;
// every comparison on symbolic data is an ordinary (forking) branch. For elements that compare equal the
// order is unspecified in Go; the stable order is one of the allowed ones.
func sortSliceIntrinsic(in *Interp, fn *ssa.Function, a []Value) Value {
	ifc, ok := a[0].(Iface)
	if !ok {
		in.fail("sort.Slice of non-interface")
	}
	sl, ok := in.force(ifc.V).(Slice)
	if !ok {
		in.fail("sort.Slice of %T", ifc.V)
	}
	less := a[1]
	n := len(sl.A)
	for i := 1; i < n; i++ {
		for j := i; j > 0; j-- {
			c := in.call(less, []Value{BVConstI(64, int64(j)), BVConstI(64, int64(j-1))}).(*Term)
			if !in.ctx.Branch(c) {
				break
			}
			sl.A[j], sl.A[j-1] = sl.A[j-1], sl.A[j]
		}
	}
	return nil
}

// errors.Is: identity comparison along the Unwrap chain (the targets in this code base are package-level
// sentinel errors, i.e. pointers); Is methods are not consulted.
func errorsIs(in *Interp, fn *ssa.Function, a []Value) Value {
	err, target := a[0].(Iface), a[1].(Iface)
	if target.T == nil {
		return BoolConst(err.T == nil)
	}
	for depth := 0; depth < 16 && err.T != nil; depth++ {
		if types.Identical(err.T, target.T) {
			c := in.equals(err.V, target.V)
			if c.IsTrue() {
				return tTrue
			}
		}
		// *fmt.wrapError{msg, err}
		if p, ok := err.V.(*Value); ok && p != nil {
			if st, ok := (*p).(Struct); ok && len(st) == 2 {
				if inner, ok := st[1].(Iface); ok && strings.HasSuffix(err.T.String(), "fmt.wrapError") {
					err = inner
					continue
				}
			}
		}
		// any other type with an Unwrap() error method
		ms := in.prog.MethodSets.MethodSet(err.T)
		var unwrap *ssa.Function
		for i := 0; i < ms.Len(); i++ {
			if ms.At(i).Obj().Name() == "Unwrap" {
				unwrap = in.prog.MethodValue(ms.At(i))
			}
		}
		if unwrap == nil {
			break
		}
		r := in.call(unwrap, []Value{err.V})
		next, ok := r.(Iface)
		if !ok {
			break
		}
		err = next
	}
	return tFalse
}

// lexCmp: -1/0/1 comparison term of two byte sequences (concrete lengths)
func lexCmp(x, y []*Term) *Term {
	n := len(x)
	if len(y) < n {
		n = len(y)
	}
	r := BVConstI(64, 0)
	if len(x) < len(y) {
		r = BVConstI(64, -1)
	} else if len(x) > len(y) {
		r = BVConstI(64, 1)
	}
	if n >= 16 && len(x) == len(y) {
		// whole-value comparison for hash-like strings
		if a := wholeOf(x); a != nil {
			if b := wholeOf(y); b != nil {
				return Ite(BVCmp("bvult", a, b), BVConstI(64, -1), Ite(BVCmp("bvugt", a, b), BVConstI(64, 1), BVConstI(64, 0)))
			}
		}
	}
	for i := n - 1; i >= 0; i-- {
		r = Ite(BVCmp("bvult", x[i], y[i]), BVConstI(64, -1), Ite(BVCmp("bvugt", x[i], y[i]), BVConstI(64, 1), r))
	}
	return r
}

func sortStringsIntrinsic(in *Interp, fn *ssa.Function, a []Value) Value {
	sl := a[0].(Slice)
	n := len(sl.A)
	for i := 1; i < n; i++ {
		for j := i; j > 0; j-- {
			c := BVCmp("bvslt", lexCmp(sl.A[j].(Str).B, sl.A[j-1].(Str).B), BVConstI(64, 0))
			if !in.ctx.Branch(c) {
				break
			}
			sl.A[j], sl.A[j-1] = sl.A[j-1], sl.A[j]
		}
	}
	return nil
}

func init() {
	intrinsics["sort.Strings"] = sortStringsIntrinsic
	intrinsics["errors.Is"] = errorsIs
	intrinsics["sort.Slice"] = sortSliceIntrinsic
	intrinsics["sort.SliceStable"] = sortSliceIntrinsic
	// math on concrete operands is executed natively; symbolic floats in these functions are not encodable
	m1 := map[string]func(float64) float64{"Log2": math.Log2, "Ceil": math.Ceil, "Floor": math.Floor, "Sqrt": math.Sqrt, "Log": math.Log, "Exp": math.Exp,
		"Atan": math.Atan, "Abs": math.Abs, "Trunc": math.Trunc, "Round": math.Round, "Log10": math.Log10}
	for n, f := range m1 {
		f := f
		n := n
		intrinsics["math."+n] = func(in *Interp, fn *ssa.Function, a []Value) Value {
			x := a[0].(Float)
			if x.T != nil {
				in.fail("math.%s of a symbolic float", n)
			}
			return Float{F: f(x.F)}
		}
	}
	intrinsics["math.Pow"] = func(in *Interp, fn *ssa.Function, a []Value) Value {
		x, y := a[0].(Float), a[1].(Float)
		if x.T != nil || y.T != nil {
			in.fail("math.Pow of a symbolic float")
		}
		return Float{F: math.Pow(x.F, y.F)}
	}
	for _, n := range []string{"RegisterType", "RegisterFile", "RegisterEnum", "RegisterMapType", "RegisterExtension", "GoGoProtoPackageIsVersion3", "GoGoProtoPackageIsVersion2"} {
		intrinsics["github.com/gogo/protobuf/proto."+n] = func(in *Interp, fn *ssa.Function, a []Value) Value { return nil }
		intrinsics["github.com/golang/protobuf/proto."+n] = func(in *Interp, fn *ssa.Function, a []Value) Value { return nil }
	}
	for _, n := range []string{"(*github.com/ElrondNetwork/elrond-go/hashing/fnv.fnv).Compute", "(*github.com/ElrondNetwork/elrond-go/hashing/keccak.keccak).Compute", "(*github.com/ElrondNetwork/elrond-go/hashing/sha256.sha256).Compute"} {
		intrinsics[n] = func(in *Interp, fn *ssa.Function, a []Value) Value { return in.ufHash(a[1].(Str)) }
	}
	for _, n := range []string{"github.com/ElrondNetwork/elrond-go/hashing/fnv.computeEmptyHash", "github.com/ElrondNetwork/elrond-go/hashing/keccak.computeEmptyHash", "github.com/ElrondNetwork/elrond-go/hashing/sha256.computeEmptyHash"} {
		intrinsics[n] = func(in *Interp, fn *ssa.Function, a []Value) Value {
			out := make([]Value, 32)
			for i := range out {
				out[i] = BVConstU(8, uint64(0xE0+i))
			}
			return Slice{A: out}
		}
	}
}

func (in *Interp) verifCall(fn *ssa.Function, args []Value) Value {
	name := fn.Name()
	argName := func() string {
		if len(args) > 0 {
			if s, ok := args[0].(Str); ok {
				c, _ := s.Concrete()
				return c
			}
		}
		return name
	}
	switch name {
	case "verifU64":
		return in.ctx.NewVar(argName(), 64)
	case "verifU32":
		return in.ctx.NewVar(argName(), 32)
	case "verifU16":
		return in.ctx.NewVar(argName(), 16)
	case "verifU8":
		return in.ctx.NewVar(argName(), 8)
	case "verifI64", "verifInt":
		return in.ctx.NewVar(argName(), 64)
	case "verifString":
		n := int(concInt(args[1]))
		b := make([]*Term, n)
		for i := range b {
			b[i] = in.ctx.NewVar(fmt.Sprintf("%s_%d", argName(), i), 8)
		}
		return Str{b}
	case "verifParam":
		v, ok := in.ctx.ex.Params[argName()]
		if !ok {
			in.fail("harness parameter %q not set", argName())
		}
		return BVConstI(64, v)
	case "verifKnown":
		switch in.ctx.ex.Known[argName()] {
		case "exclude":
			in.ctx.Assume(Not(args[1].(*Term)))
		case "assume":
			in.ctx.Assume(args[1].(*Term))
		}
		return nil
	case "verifIteByte", "verifIteU64":
		return Ite(args[0].(*Term), args[1].(*Term), args[2].(*Term))
	case "verifNote":
		in.ctx.ex.Notes[argName()]++
		return nil
	case "verifFill":
		tag, _ := args[2].(Str).Concrete()
		return BVConstI(64, int64(in.verifFill(args[0], int(concInt(args[1])), tag)))
	case "verifIsReplay":
		return tFalse
	case "verifFmtExact":
		in.fmtExact = args[0].(*Term).IsTrue()
		return nil
	case "verifMapOrder":
		in.mapOrder = args[0].(*Term).IsTrue()
		return nil
	case "verifNoPanic":
		msg, _ := args[1].(Str).Concrete()
		func() {
			defer func() {
				if r := recover(); r != nil {
					gp, ok := r.(goPanic)
					if !ok {
						panic(r)
					}
					pm := "?"
					switch v := gp.v.(type) {
					case Str:
						pm, _ = v.Concrete()
					case Iface:
						if s, ok := v.V.(Str); ok {
							pm, _ = s.Concrete()
						} else {
							pm = fmt.Sprintf("%v", v.T)
						}
					}
					in.ctx.Assert(tFalse, msg+": panic: "+pm)
				}
			}()
			in.call(args[0], nil)
		}()
		return nil
	case "verifI32":
		return in.ctx.NewVar(argName(), 32)
	case "verifBool":
		return in.ctx.NewVar(argName(), 0)
	case "verifBytes":
		n := int(concInt(args[1]))
		a := make([]Value, n)
		for i := range a {
			a[i] = in.ctx.NewVar(fmt.Sprintf("%s_%d", argName(), i), 8)
		}
		return Slice{A: a}
	case "verifChoice":
		n := concInt(args[1])
		v := in.ctx.NewVar(argName(), 64)
		in.ctx.Assume(BVCmp("bvult", v, BVConstI(64, n)))
		return BVConstI(64, in.ctx.Concretize(v, "choice"))
	case "verifBig":
		v := in.ctx.NewVar(argName(), -1)
		return newBig(v)
	case "verifAssume":
		in.ctx.Assume(args[0].(*Term))
		return nil
	case "verifAssert":
		msg, _ := args[1].(Str).Concrete()
		in.ctx.Assert(args[0].(*Term), msg)
		return nil
	case "verifRaceWatch":
		pre := map[*Value]bool{}
		collectCells(args[0], pre)
		in.race = &raceMon{pre: pre}
		return nil
	case "verifRaceBegin":
		in.race.tag, _ = args[0].(Str).Concrete()
		in.race.active = true
		return nil
	case "verifRaceEnd":
		in.race.active = false
		return nil
	case "verifRaceCheck":
		in.raceCheck()
		return nil
	case "verifGo":
		f := args[0]
		in.explore = true
		in.spawn(func() { in.call(f, nil) })
		return nil
	case "verifExplore":
		in.explore = true
		return nil
	case "verifYield":
		in.yield()
		return nil
	case "verifJoin":
		in.joinAll()
		return nil
	case "verifReach":
		l, _ := args[0].(Str).Concrete()
		in.ctx.ex.Reached[l]++
		return nil
	}
	in.fail("unknown verif function %s", name)
	return nil
}

var _ = big.NewInt


type hashApp struct {
	arg Str
	out *Term // 256-bit
}

// ufHash models the hash as an injective function with unknown values: fresh 256-bit output plus
// pairwise axioms arg_i = arg_j <=> out_i = out_j against every earlier application on this path.
func (in *Interp) ufHash(arg Str) Value {
	out := in.ctx.NewVar("hash", 256)
	// no input hashes to 32 zero bytes (the value the trie uses as the empty-trie hash)
	in.ctx.add(Not(BVCmp("=", out, BVConstU(256, 0))))
	for _, h := range in.ctx.hashApps {
		in.ctx.add(Eq(strEq(h.arg, arg), BVCmp("=", h.out, out)))
	}
	in.ctx.hashApps = append(in.ctx.hashApps, hashApp{arg, out})
	res := make([]Value, 32)
	for i := range res {
		hi := 255 - 8*i
		res[i] = Extract(hi, hi-7, out)
	}
	return Slice{A: res}
}


func (in *Interp) lock(o *SyncObj, m lockMode) {
	if in.held == nil {
		in.held = map[*SyncObj]lockMode{}
	}
	in.held[o] = m
}

func (in *Interp) unlock(o *SyncObj) { delete(in.held, o) }

// sync.Pool: Get returns the most recently Put object (what the runtime does on one P without a GC in
// between), else New()
var poolMu sync.Mutex

func initPool() {
	intrinsics["(*sync.Pool).Get"] = func(in *Interp, fn *ssa.Function, a []Value) Value {
		p := in.force(a[0]).(*Value)
		if in.pools == nil {
			in.pools = map[*Value][]Value{}
		}
		if l := in.pools[p]; len(l) > 0 {
			x := l[len(l)-1]
			in.pools[p] = l[:len(l)-1]
			return x
		}
		st := (*p).(Struct)
		newFn := in.force(st[len(st)-1])
		switch f := newFn.(type) {
		case *ssa.Function:
			if f == nil {
				return Iface{}
			}
		case nil:
			return Iface{}
		}
		return in.call(newFn, nil)
	}
	intrinsics["(*sync.Pool).Put"] = func(in *Interp, fn *ssa.Function, a []Value) Value {
		p := in.force(a[0]).(*Value)
		if in.pools == nil {
			in.pools = map[*Value][]Value{}
		}
		if x, ok := in.force(a[1]).(Iface); ok && x.T == nil {
			return nil
		}
		in.pools[p] = append(in.pools[p], a[1])
		return nil
	}
}
