package main

import (
	"encoding/json"
	"fmt"
	"math/big"
	"os"
	"os/exec"
	"path/filepath"
	"strings"
)

const replayRuntime = `package %s

import (
	"encoding/json"
	"fmt"
	"math/big"
	"os"
)

var verifVec map[string]string
var verifSeq = map[string]int{}

func verifLoad() {
	if verifVec != nil {
		return
	}
	verifVec = map[string]string{}
	b, err := os.ReadFile(os.Getenv("VERIF_REPLAY"))
	if err != nil {
		panic(err)
	}
	if err := json.Unmarshal(b, &verifVec); err != nil {
		panic(err)
	}
}

func verifSan(s string) string {
	r := []byte(s)
	for i, c := range r {
		if !(c >= 'a' && c <= 'z' || c >= 'A' && c <= 'Z' || c >= '0' && c <= '9' || c == '_') {
			r[i] = '_'
		}
	}
	return string(r)
}

func verifNext(name string) *big.Int {
	verifLoad()
	name = verifSan(name)
	k := verifSeq[name]
	verifSeq[name] = k + 1
	z := new(big.Int)
	if s, ok := verifVec[name+"!"+itoa(k)]; ok {
		z.SetString(s, 10)
	}
	return z
}

func itoa(i int) string { return big.NewInt(int64(i)).String() }

func verifU64(name string) uint64 { return verifNext(name).Uint64() }
func verifU32(name string) uint32 { return uint32(verifNext(name).Uint64()) }
func verifU16(name string) uint16 { return uint16(verifNext(name).Uint64()) }
func verifU8(name string) uint8   { return uint8(verifNext(name).Uint64()) }
func verifI64(name string) int64  { return int64(verifNext(name).Uint64()) }
func verifInt(name string) int    { return int(verifNext(name).Uint64()) }
func verifI32(name string) int32  { return int32(verifNext(name).Uint64()) }
func verifBool(name string) bool  { return verifNext(name).Sign() != 0 }
func verifBig(name string) *big.Int { return verifNext(name) }
func verifChoice(name string, n int) int { return int(verifNext(name).Uint64()) }
func verifParam(name string) int {
	verifLoad()
	z := new(big.Int)
	z.SetString(verifVec["param:"+name], 10)
	return int(z.Int64())
}
func verifBytes(name string, n int) []byte {
	verifLoad()
	name = verifSan(name)
	k := verifSeq[name]
	verifSeq[name] = k + 1
	out := make([]byte, n)
	for i := range out {
		z := new(big.Int)
		if s, ok := verifVec[name+"_"+itoa(i)+"!"+itoa(k)]; ok {
			z.SetString(s, 10)
		}
		out[i] = byte(z.Uint64())
	}
	return out
}
func verifString(name string, n int) string { return string(verifBytes(name, n)) }
func verifAssume(c bool) {
	if !c {
		panic("VERIF-REPLAY: assumption violated by replay vector")
	}
}
func verifAssert(c bool, msg string) {
	if !c {
		if os.Getenv("VERIF_REPLAY_LABEL") == "" || os.Getenv("VERIF_REPLAY_LABEL") == msg {
			panic("VERIF-ASSERT-FAILED: " + msg)
		}
		fmt.Println("VERIF-OTHER-ASSERT-FAILED: " + msg)
	}
}
func verifKnown(id string, c bool) {}
func verifReach(label string)     {}
func verifNote(msg string)        {}
func verifIsReplay() bool         { return true }
func verifFmtExact(on bool)      {}
func verifIteByte(c bool, a, b byte) byte {
	if c {
		return a
	}
	return b
}
func verifIteU64(c bool, a, b uint64) uint64 {
	if c {
		return a
	}
	return b
}
func verifMapOrder(on bool)       {}
func verifRaceWatch(obj interface{}) {}
func verifRaceBegin(tag string)   {}
func verifRaceEnd()               {}
func verifRaceCheck()             {}

// cooperative scheduler for explored-mode harnesses: exactly one controlled goroutine runs at a
// time; at every verifYield / verifJoin the next one is taken from the recorded schedule, mirroring
// the engine's choice points (threads ordered by creation, choice only if >= 2 candidates).
type verifThread struct {
	resume  chan struct{}
	done    bool
	blocked bool
}

var verifThreads = []*verifThread{{resume: make(chan struct{})}}
var verifCur = 0
var verifSchedPos = 0
var verifThreadPanic interface{}

func verifSchedNext(n int) int {
	verifLoad()
	var sched []int
	json.Unmarshal([]byte(verifVec["_sched"]), &sched)
	k := 0
	if verifSchedPos < len(sched) {
		k = sched[verifSchedPos]
	}
	verifSchedPos++
	if k >= n {
		k = 0
	}
	return k
}

func verifExplore() {}

func verifGo(f func()) {
	t := &verifThread{resume: make(chan struct{})}
	verifThreads = append(verifThreads, t)
	go func() {
		<-t.resume
		defer func() {
			if r := recover(); r != nil {
				verifThreadPanic = r
			}
			t.done = true
			verifCur = 0
			verifThreads[0].resume <- struct{}{}
		}()
		f()
	}()
}

func verifSwitchTo(i int) {
	self := verifCur
	if i == self {
		return
	}
	verifCur = i
	verifThreads[i].resume <- struct{}{}
	<-verifThreads[self].resume
	if verifThreadPanic != nil && self == 0 {
		r := verifThreadPanic
		verifThreadPanic = nil
		panic(r)
	}
}

func verifYield() {
	if len(verifThreads) < 2 {
		return
	}
	var c []int
	for i, t := range verifThreads {
		if !t.done && !t.blocked {
			c = append(c, i)
		}
	}
	if len(c) < 2 {
		return
	}
	verifSwitchTo(c[verifSchedNext(len(c))])
}

func verifJoin() {
	verifThreads[0].blocked = true
	defer func() { verifThreads[0].blocked = false }()
	for {
		var others []int
		for i, t := range verifThreads[1:] {
			if !t.done {
				others = append(others, i+1)
			}
		}
		if len(others) == 0 {
			return
		}
		k := 0
		if len(others) > 1 {
			k = verifSchedNext(len(others))
		}
		verifSwitchTo(others[k])
	}
}
func verifNoPanic(f func(), msg string) {
	defer func() {
		if r := recover(); r != nil {
			s := fmt.Sprint(r)
			if len(s) >= 5 && s[:5] == "VERIF" {
				panic(r)
			}
			panic("VERIF-ASSERT-FAILED: " + msg + ": panic: " + s)
		}
	}()
	f()
}
`

const replayTest = `package %s

import (
	"fmt"
	"testing"
)

func TestVerifReplay(t *testing.T) {
	defer func() {
		if r := recover(); r != nil {
			t.Fatalf("REPRODUCED: %%v", fmt.Sprint(r))
		}
	}()
	%s()
}
`

func modelStrings(m map[string]*big.Int) map[string]string {
	vec := map[string]string{}
	for k, v := range m {
		vec[k] = v.String()
	}
	return vec
}

func writeVector(outDir, entry string, v Violation, params map[string]int64) string {
	os.MkdirAll(outDir, 0o755)
	vec := modelStrings(v.Model)
	for k, x := range params {
		vec["param:"+k] = fmt.Sprint(x)
	}
	vec["_assertion"] = v.Msg
	vec["_path"] = fmt.Sprint(v.Path)
	sb, _ := json.Marshal(v.Sched)
	if v.Sched == nil {
		sb = []byte("[]")
	}
	vec["_sched"] = string(sb)
	vb, _ := json.MarshalIndent(vec, "", " ")
	vecPath := filepath.Join(outDir, entry+".json")
	os.WriteFile(vecPath, vb, 0o644)
	return vecPath
}

func writeModelOnly(outDir, entry string, v Violation, params map[string]int64, note string) {
	writeVector(outDir, entry, v, params)
	os.WriteFile(filepath.Join(outDir, "README"), []byte("solver model only; native replay not available for this harness: "+note+"\n"), 0o644)
}

func replayNative(ld *loaded, u Unit, entry string, v Violation, params map[string]int64, outDir string) (bool, string) {
	return replayNativeMode(ld, u, entry, v, params, outDir, false)
}

// replayNativeMode writes the replay vector and runs the harness natively (ordinary compiled Go) against the repo.
func replayNativeMode(ld *loaded, u Unit, entry string, v Violation, params map[string]int64, outDir string, race bool) (bool, string) {
	vecPath := writeVector(outDir, entry, v, params)
	pkgDir := pkgDirOf(u.Pkg)
	pkgName := ld.pkgName[u.Pkg]
	repl := map[string]string{}
	for i, h := range u.Harness {
		b, _ := os.ReadFile(harnessPath(h))
		p := filepath.Join(outDir, fmt.Sprintf("harness_%d.go", i))
		os.WriteFile(p, b, 0o644)
		repl[filepath.Join(repoDir, pkgDir, fmt.Sprintf("zz_verif_%d.go", i))] = p
	}
	rt := filepath.Join(outDir, "runtime.go")
	os.WriteFile(rt, []byte(fmt.Sprintf(replayRuntime, pkgName)), 0o644)
	repl[filepath.Join(repoDir, pkgDir, "zz_verif_runtime.go")] = rt
	tf := filepath.Join(outDir, "replay_test.go")
	os.WriteFile(tf, []byte(fmt.Sprintf(replayTest, pkgName, entry)), 0o644)
	repl[filepath.Join(repoDir, pkgDir, "zz_verif_replay_test.go")] = tf
	ob, _ := json.Marshal(map[string]interface{}{"Replace": repl})
	ov := filepath.Join(outDir, "overlay.json")
	os.WriteFile(ov, ob, 0o644)
	args := []string{"test", "-vet=off", "-count=1", "-overlay", ov, "-run", "TestVerifReplay"}
	if race {
		args = append(args, "-race")
	}
	args = append(args, "./"+pkgDir)
	cmdline := "cd " + repoDir + " && VERIF_REPLAY=" + vecPath + " VERIF_REPLAY_LABEL='" + v.Msg + "' GOFLAGS=-mod=mod GOPROXY=off go " + strings.Join(args, " ")
	os.WriteFile(filepath.Join(outDir, "replay.sh"), []byte("#!/bin/sh\n"+cmdline+"\n"), 0o755)
	cmd := exec.Command("go", args...)
	cmd.Dir = repoDir
	cmd.Env = append(os.Environ(), "GOFLAGS=-mod=mod", "GOPROXY=off", "GOSUMDB=off", "VERIF_REPLAY="+vecPath, "VERIF_REPLAY_LABEL="+v.Msg)
	out, _ := cmd.CombinedOutput()
	s := string(out)
	os.WriteFile(filepath.Join(outDir, "replay.out"), out, 0o644)
	ok := strings.Contains(s, "REPRODUCED: VERIF-ASSERT-FAILED: "+v.Msg)
	if race && strings.Contains(s, "DATA RACE") {
		ok = true
	}
	return ok, s
}

// replayRace confirms a lockset finding: the property's native two-goroutine stress test is run
// under the Go race detector; the finding counts as reproduced only if the detector reports a race.
func replayRace(ld *loaded, u Unit, entry string, v Violation, params map[string]int64, outDir string, raceTest string) (bool, string) {
	writeVector(outDir, entry, v, params)
	pkgDir := pkgDirOf(u.Pkg)
	b, err := os.ReadFile(harnessPath(raceTest))
	if err != nil {
		return false, "no race test: " + err.Error()
	}
	tf := filepath.Join(outDir, "race_test.go")
	os.WriteFile(tf, b, 0o644)
	repl := map[string]string{filepath.Join(repoDir, pkgDir, "zz_verif_race_test.go"): tf}
	ob, _ := json.Marshal(map[string]interface{}{"Replace": repl})
	ov := filepath.Join(outDir, "overlay.json")
	os.WriteFile(ov, ob, 0o644)
	args := []string{"test", "-race", "-vet=off", "-count=1", "-overlay", ov, "-run", "TestVerifRace", "./" + pkgDir}
	cmdline := "cd " + repoDir + " && GOFLAGS=-mod=mod GOPROXY=off go " + strings.Join(args, " ")
	os.WriteFile(filepath.Join(outDir, "replay.sh"), []byte("#!/bin/sh\n"+cmdline+"\n"), 0o755)
	cmd := exec.Command("go", args...)
	cmd.Dir = repoDir
	cmd.Env = append(os.Environ(), "GOFLAGS=-mod=mod", "GOPROXY=off", "GOSUMDB=off")
	out, _ := cmd.CombinedOutput()
	os.WriteFile(filepath.Join(outDir, "replay.out"), out, 0o644)
	return strings.Contains(string(out), "DATA RACE"), string(out)
}
