package main

// SMT term DAG with constant folding. Sorts: W>0 bit-vector of width W, W==0 Bool, W==-1 Int.

import (
	"strconv"
	"sync"
	"sync/atomic"
	"fmt"
	"math/big"
	"strings"
)

type Term struct {
	Op   string // "const","var", or SMT op name
	W    int
	Val  *big.Int // for const (bool: 0/1)
	Name string   // for var
	Args []*Term
	P    []int // parameters (extract hi lo, extend amount)
	id   int
	sh   uint64 // structural hash (lazy)
}

var termCounter64 int64

func nextID() int { return int(atomic.AddInt64(&termCounter64, 1)) }

// hash-consing (optimisation only): structurally equal terms become pointer-equal, so that more
// comparisons fold to constants before they reach the solver.
type consShard struct {
	mu sync.Mutex
	m  map[string]*Term
}

var consTable [64]consShard

func consKey(op string, w int, p []int, args []*Term) (string, uint32) {
	var sb strings.Builder
	sb.WriteString(op)
	sb.WriteByte('|')
	sb.WriteString(strconv.Itoa(w))
	for _, x := range p {
		sb.WriteByte(':')
		sb.WriteString(strconv.Itoa(x))
	}
	h := uint32(2166136261)
	for _, a := range args {
		sb.WriteByte(',')
		sb.WriteString(strconv.Itoa(a.id))
		h = (h ^ uint32(a.id)) * 16777619
	}
	return sb.String(), h
}

func mkP(op string, w int, p []int, args ...*Term) *Term {
	return &Term{Op: op, W: w, Args: args, P: p, id: nextID()}
}

func mk(op string, w int, args ...*Term) *Term { return mkP(op, w, nil, args...) }

func consConst(w int, v *big.Int) *Term {
	return &Term{Op: "const", W: w, Val: v, id: nextID()}
}

func (t *Term) IsConst() bool { return t.Op == "const" }

func mask(w int) *big.Int {
	m := new(big.Int).Lsh(big.NewInt(1), uint(w))
	return m.Sub(m, big.NewInt(1))
}

func BVConst(w int, v *big.Int) *Term {
	x := new(big.Int).And(v, mask(w))
	return consConst(w, x)
}
func BVConstU(w int, v uint64) *Term { return BVConst(w, new(big.Int).SetUint64(v)) }
func BVConstI(w int, v int64) *Term  { return BVConst(w, big.NewInt(v)) }
func IntConst(v *big.Int) *Term {
	return consConst(-1, new(big.Int).Set(v))
}

var tTrue = &Term{Op: "const", W: 0, Val: big.NewInt(1), id: -1}
var tFalse = &Term{Op: "const", W: 0, Val: big.NewInt(0), id: -2}

func BoolConst(b bool) *Term {
	if b {
		return tTrue
	}
	return tFalse
}
func (t *Term) IsTrue() bool  { return t.Op == "const" && t.W == 0 && t.Val.Sign() != 0 }
func (t *Term) IsFalse() bool { return t.Op == "const" && t.W == 0 && t.Val.Sign() == 0 }

func Var(name string, w int) *Term {
	return &Term{Op: "var", W: w, Name: name, id: nextID()}
}

func signed(w int, v *big.Int) *big.Int {
	if v.Bit(w-1) == 1 {
		return new(big.Int).Sub(v, new(big.Int).Lsh(big.NewInt(1), uint(w)))
	}
	return new(big.Int).Set(v)
}

// BV binary arithmetic
func BVBin(op string, a, b *Term) *Term {
	w := a.W
	if a.W != b.W {
		panic(fmt.Sprintf("width mismatch %s %d %d", op, a.W, b.W))
	}
	if a.IsConst() && b.IsConst() {
		x, y := a.Val, b.Val
		r := new(big.Int)
		switch op {
		case "bvadd":
			r.Add(x, y)
		case "bvsub":
			r.Sub(x, y)
		case "bvmul":
			r.Mul(x, y)
		case "bvand":
			r.And(x, y)
		case "bvor":
			r.Or(x, y)
		case "bvxor":
			r.Xor(x, y)
		case "bvudiv":
			if y.Sign() == 0 {
				r = mask(w)
			} else {
				r.Div(x, y)
			}
		case "bvurem":
			if y.Sign() == 0 {
				r.Set(x)
			} else {
				r.Mod(x, y)
			}
		case "bvsdiv":
			sx, sy := signed(w, x), signed(w, y)
			if sy.Sign() == 0 {
				goto sym
			}
			r.Quo(sx, sy)
		case "bvsrem":
			sx, sy := signed(w, x), signed(w, y)
			if sy.Sign() == 0 {
				goto sym
			}
			r.Rem(sx, sy)
		case "bvshl":
			if y.Cmp(big.NewInt(int64(w))) >= 0 {
				r.SetInt64(0)
			} else {
				r.Lsh(x, uint(y.Uint64()))
			}
		case "bvlshr":
			if y.Cmp(big.NewInt(int64(w))) >= 0 {
				r.SetInt64(0)
			} else {
				r.Rsh(x, uint(y.Uint64()))
			}
		case "bvashr":
			sx := signed(w, x)
			sh := uint(w)
			if y.Cmp(big.NewInt(int64(w))) < 0 {
				sh = uint(y.Uint64())
			}
			r.Rsh(sx, sh)
		default:
			goto sym
		}
		return BVConst(w, r)
	}
sym:
	// light identities
	switch op {
	case "bvadd", "bvor", "bvxor":
		if a.IsConst() && a.Val.Sign() == 0 {
			return b
		}
		if b.IsConst() && b.Val.Sign() == 0 {
			return a
		}
		if op == "bvor" {
			if a.IsConst() && a.Val.Cmp(mask(w)) == 0 {
				return a
			}
			if b.IsConst() && b.Val.Cmp(mask(w)) == 0 {
				return b
			}
		}
	case "bvsub", "bvshl", "bvlshr":
		if b.IsConst() && b.Val.Sign() == 0 {
			return a
		}
	case "bvand":
		if a.IsConst() && a.Val.Sign() == 0 {
			return a
		}
		if b.IsConst() && b.Val.Sign() == 0 {
			return b
		}
		if a.IsConst() && a.Val.Cmp(mask(w)) == 0 {
			return b
		}
		if b.IsConst() && b.Val.Cmp(mask(w)) == 0 {
			return a
		}
	}
	return mk(op, w, a, b)
}

func BVCmp(op string, a, b *Term) *Term {
	if a.W != b.W {
		panic(fmt.Sprintf("width mismatch %s %d %d", op, a.W, b.W))
	}
	if a.IsConst() && b.IsConst() {
		var c int
		switch op {
		case "=":
			return BoolConst(a.Val.Cmp(b.Val) == 0)
		case "bvult", "bvule", "bvugt", "bvuge":
			c = a.Val.Cmp(b.Val)
		default:
			c = signed(a.W, a.Val).Cmp(signed(b.W, b.Val))
		}
		switch op {
		case "bvult", "bvslt":
			return BoolConst(c < 0)
		case "bvule", "bvsle":
			return BoolConst(c <= 0)
		case "bvugt", "bvsgt":
			return BoolConst(c > 0)
		case "bvuge", "bvsge":
			return BoolConst(c >= 0)
		}
	}
	if op == "=" && a == b {
		return tTrue
	}
	return mk(op, 0, a, b)
}

func Not(a *Term) *Term {
	if a.IsConst() {
		return BoolConst(a.Val.Sign() == 0)
	}
	if a.Op == "not" {
		return a.Args[0]
	}
	return mk("not", 0, a)
}
func And(a, b *Term) *Term {
	if a.IsFalse() || b.IsFalse() {
		return tFalse
	}
	if a.IsTrue() {
		return b
	}
	if b.IsTrue() {
		return a
	}
	return mk("and", 0, a, b)
}
func Or(a, b *Term) *Term {
	if a.IsTrue() || b.IsTrue() {
		return tTrue
	}
	if a.IsFalse() {
		return b
	}
	if b.IsFalse() {
		return a
	}
	return mk("or", 0, a, b)
}
func Eq(a, b *Term) *Term {
	if a.W == 0 {
		if a.IsConst() && b.IsConst() {
			return BoolConst(a.Val.Cmp(b.Val) == 0)
		}
		if a.IsTrue() {
			return b
		}
		if b.IsTrue() {
			return a
		}
		if a.IsFalse() {
			return Not(b)
		}
		if b.IsFalse() {
			return Not(a)
		}
		return mk("=", 0, a, b)
	}
	if a.W == -1 {
		return IntCmp("=", a, b)
	}
	return BVCmp("=", a, b)
}
func Ite(c, a, b *Term) *Term {
	if c.IsTrue() {
		return a
	}
	if c.IsFalse() {
		return b
	}
	if a == b {
		return a
	}
	if a.W == 0 {
		if a.IsTrue() && b.IsFalse() {
			return c
		}
		if a.IsFalse() && b.IsTrue() {
			return Not(c)
		}
	}
	if a.IsConst() && b.IsConst() && a.Val.Cmp(b.Val) == 0 {
		return a
	}
	return mk("ite", a.W, c, a, b)
}
func Extract(hi, lo int, a *Term) *Term {
	if lo == 0 && hi == a.W-1 {
		return a
	}
	if a.IsConst() {
		return BVConst(hi-lo+1, new(big.Int).Rsh(a.Val, uint(lo)))
	}
	// bit-wise operations with a constant: extract both sides (x|1 has a constant low bit)
	if (a.Op == "bvor" || a.Op == "bvand") && (a.Args[0].IsConst() || a.Args[1].IsConst()) {
		return BVBin(a.Op, Extract(hi, lo, a.Args[0]), Extract(hi, lo, a.Args[1]))
	}
	return mkP("extract", hi-lo+1, []int{hi, lo}, a)
}
func ZeroExt(n int, a *Term) *Term {
	if n == 0 {
		return a
	}
	if a.IsConst() {
		return BVConst(a.W+n, a.Val)
	}
	return mkP("zero_extend", a.W+n, []int{n}, a)
}
func SignExt(n int, a *Term) *Term {
	if n == 0 {
		return a
	}
	if a.IsConst() {
		return BVConst(a.W+n, signed(a.W, a.Val))
	}
	return mkP("sign_extend", a.W+n, []int{n}, a)
}
func Concat(a, b *Term) *Term {
	if a.IsConst() && b.IsConst() {
		v := new(big.Int).Lsh(a.Val, uint(b.W))
		v.Or(v, b.Val)
		return BVConst(a.W+b.W, v)
	}
	// adjacent extracts of the same term: concat(x[h:m+1], x[m:l]) = x[h:l]
	if a.Op == "extract" && b.Op == "extract" && a.Args[0] == b.Args[0] && a.P[1] == b.P[0]+1 {
		return Extract(a.P[0], b.P[1], a.Args[0])
	}
	return mk("concat", a.W+b.W, a, b)
}

// Int (unbounded) ops
func IntBin(op string, a, b *Term) *Term {
	if a.IsConst() && b.IsConst() {
		r := new(big.Int)
		switch op {
		case "+":
			return IntConst(r.Add(a.Val, b.Val))
		case "-":
			return IntConst(r.Sub(a.Val, b.Val))
		case "*":
			return IntConst(r.Mul(a.Val, b.Val))
		}
	}
	return mk(op, -1, a, b)
}
func IntCmp(op string, a, b *Term) *Term {
	if a.IsConst() && b.IsConst() {
		c := a.Val.Cmp(b.Val)
		switch op {
		case "=":
			return BoolConst(c == 0)
		case "<":
			return BoolConst(c < 0)
		case "<=":
			return BoolConst(c <= 0)
		case ">":
			return BoolConst(c > 0)
		case ">=":
			return BoolConst(c >= 0)
		}
	}
	return mk(op, 0, a, b)
}

func sortOf(w int) string {
	switch {
	case w == 0:
		return "Bool"
	case w == -1:
		return "Int"
	case w == -64:
		return "(_ FloatingPoint 11 53)"
	case w == -32:
		return "(_ FloatingPoint 8 24)"
	}
	return fmt.Sprintf("(_ BitVec %d)", w)
}

// Printer with sharing: emits define-fun for every non-leaf node once per session.
type mulApp struct{ a, b, name string }

type Printer struct {
	defined map[int]string
	bodies  map[string]string // structural sharing: body text -> name
	vars    map[string]bool
	out     *strings.Builder
	ufMul   bool // product abstraction: symbolic*symbolic Int products are an uninterpreted function plus valid axioms
	muls    []mulApp
	ufDecl  bool
	ufDivDecl bool
}

func NewPrinter() *Printer {
	return &Printer{defined: map[int]string{}, bodies: map[string]string{}, vars: map[string]bool{}, out: &strings.Builder{}}
}

// mulAxioms emits valid facts about the new product p = a*b (sign, unit, zero, monotonicity against
// every earlier product, distributivity over earlier products with a syntactically common factor).
func (p *Printer) mulAxioms(n mulApp) {
	w := func(f string, a ...interface{}) { fmt.Fprintf(p.out, "(assert "+f+")\n", a...) }
	w("(=> (and (>= %s 0) (>= %s 0)) (>= %s 0))", n.a, n.b, n.name)
	w("(=> (or (= %s 0) (= %s 0)) (= %s 0))", n.a, n.b, n.name)
	w("(=> (= %s 1) (= %s %s))", n.a, n.name, n.b)
	w("(=> (= %s 1) (= %s %s))", n.b, n.name, n.a)
	w("(=> (and (>= %s 1) (>= %s 1)) (and (>= %s %s) (>= %s %s)))", n.a, n.b, n.name, n.a, n.name, n.b)
	for _, q := range p.muls {
		for _, pr := range [][2]string{{q.a, q.b}, {q.b, q.a}} {
			c, d := pr[0], pr[1]
			w("(=> (and (>= %s 0) (>= %s 0) (<= %s %s) (<= %s %s)) (<= %s %s))", n.a, n.b, n.a, c, n.b, d, n.name, q.name)
			w("(=> (and (>= %s 0) (>= %s 0) (<= %s %s) (<= %s %s)) (<= %s %s))", c, d, c, n.a, d, n.b, q.name, n.name)
			w("(=> (and (= %s %s) (= %s %s)) (= %s %s))", n.a, c, n.b, d, n.name, q.name)
			// strict monotonicity / cancellation with an equal positive factor
			w("(=> (and (= %s %s) (>= %s 1) (< %s %s)) (<= (+ %s %s) %s))", n.a, c, n.a, n.b, d, n.name, n.a, q.name)
			w("(=> (and (= %s %s) (>= %s 1) (< %s %s)) (<= (+ %s %s) %s))", n.a, c, n.a, d, n.b, q.name, n.a, n.name)
			w("(=> (and (= %s %s) (>= %s 1) (< %s %s)) (<= (+ %s %s) %s))", n.b, d, n.b, n.a, c, n.name, n.b, q.name)
			w("(=> (and (= %s %s) (>= %s 1) (< %s %s)) (<= (+ %s %s) %s))", n.b, d, n.b, c, n.a, q.name, n.b, n.name)
		}
	}
	// distributivity with a common (syntactically equal) factor
	other := func(m mulApp, c string) (string, bool) {
		if m.a == c {
			return m.b, true
		}
		if m.b == c {
			return m.a, true
		}
		return "", false
	}
	all := append(append([]mulApp{}, p.muls...), n)
	for _, c := range []string{n.a, n.b} {
		var grp []mulApp
		var oth []string
		for _, m := range all {
			if o, ok := other(m, c); ok {
				grp = append(grp, m)
				oth = append(oth, o)
			}
		}
		if len(grp) > 7 {
			continue
		}
		for i := range grp {
			for j := range grp {
				for k := range grp {
					if i == j || i == k || j > k {
						continue
					}
					if grp[i].name != n.name && grp[j].name != n.name && grp[k].name != n.name {
						continue
					}
					w("(=> (= %s (+ %s %s)) (= %s (+ %s %s)))", oth[i], oth[j], oth[k], grp[i].name, grp[j].name, grp[k].name)
				}
			}
		}
		if n.a == n.b {
			break
		}
	}
}

func (p *Printer) ref(t *Term) string {
	switch t.Op {
	case "const":
		switch {
		case t.W == 0:
			if t.Val.Sign() != 0 {
				return "true"
			}
			return "false"
		case t.W == -1:
			if t.Val.Sign() < 0 {
				return "(- " + new(big.Int).Neg(t.Val).String() + ")"
			}
			return t.Val.String()
		}
		return fmt.Sprintf("(_ bv%s %d)", t.Val.String(), t.W)
	case "var":
		if !p.vars[t.Name] {
			p.vars[t.Name] = true
			fmt.Fprintf(p.out, "(declare-const %s %s)\n", t.Name, sortOf(t.W))
		}
		return t.Name
	}
	if n, ok := p.defined[t.id]; ok {
		return n
	}
	args := make([]string, len(t.Args))
	for i, a := range t.Args {
		args[i] = p.ref(a)
	}
	var body string
	switch t.Op {
	case "extract":
		body = fmt.Sprintf("((_ extract %d %d) %s)", t.P[0], t.P[1], args[0])
	case "zero_extend", "sign_extend":
		body = fmt.Sprintf("((_ %s %d) %s)", t.Op, t.P[0], args[0])
	case "int2bv":
		body = fmt.Sprintf("((_ int2bv %d) %s)", t.W, args[0])
	case "fpconst":
		body = t.Name
	case "to_fp_unsigned", "to_fp_signed":
		eb, sb := 11, 53
		if t.W == -32 {
			eb, sb = 8, 24
		}
		op := "to_fp_unsigned"
		if t.Op == "to_fp_signed" {
			op = "to_fp"
		}
		body = fmt.Sprintf("((_ %s %d %d) RNE %s)", op, eb, sb, args[0])
	case "fp_to_fp":
		eb, sb := 11, 53
		if t.W == -32 {
			eb, sb = 8, 24
		}
		body = fmt.Sprintf("((_ to_fp %d %d) RNE %s)", eb, sb, args[0])
	case "fp.to_ubv", "fp.to_sbv":
		body = fmt.Sprintf("((_ %s %d) RTZ %s)", t.Op, t.W, args[0])
	case "fp.mul", "fp.add", "fp.sub", "fp.div":
		body = fmt.Sprintf("(%s RNE %s %s)", t.Op, args[0], args[1])
	default:
		body = "(" + t.Op + " " + strings.Join(args, " ") + ")"
	}
	isUF := false
	if p.ufMul && t.Op == "*" && t.W == -1 && !t.Args[0].IsConst() && !t.Args[1].IsConst() {
		if args[0] > args[1] {
			args[0], args[1] = args[1], args[0]
		}
		if !p.ufDecl {
			p.ufDecl = true
			fmt.Fprintf(p.out, "(declare-fun vmul (Int Int) Int)\n")
		}
		body = "(vmul " + args[0] + " " + args[1] + ")"
		isUF = true
	}
	isUFDiv := false
	if p.ufMul && t.Op == "div" && t.W == -1 && !t.Args[1].IsConst() {
		if !p.ufDecl {
			p.ufDecl = true
			fmt.Fprintf(p.out, "(declare-fun vmul (Int Int) Int)\n")
		}
		if !p.ufDivDecl {
			p.ufDivDecl = true
			fmt.Fprintf(p.out, "(declare-fun vdiv (Int Int) Int)\n")
		}
		body = "(vdiv " + args[0] + " " + args[1] + ")"
		isUFDiv = true
	}
	if n, ok := p.bodies[body]; ok {
		p.defined[t.id] = n
		return n
	}
	name := fmt.Sprintf("t!%d", t.id)
	fmt.Fprintf(p.out, "(define-fun %s () %s %s)\n", name, sortOf(t.W), body)
	p.defined[t.id] = name
	p.bodies[body] = name
	if t.Op == "int2bv" {
		// round-trip fact (valid): in-range integers survive the conversion
		fmt.Fprintf(p.out, "(assert (=> (and (>= %s 0) (< %s %s)) (= (bv2nat %s) %s)))\n", args[0], args[0], new(big.Int).Lsh(big.NewInt(1), uint(t.W)).String(), name, args[0])
	}
	if t.Op == "bv2nat" {
		// range fact (valid): helps the arithmetic solver, which otherwise has to derive it from the bit-vector side
		fmt.Fprintf(p.out, "(assert (and (>= %s 0) (< %s %s)))\n", name, name, new(big.Int).Lsh(big.NewInt(1), uint(t.Args[0].W)).String())
	}
	if isUFDiv {
		// q = a div b with b > 0 (Euclidean): b*q <= a < b*q + b ; the product b*q is itself abstracted
		a, b := args[0], args[1]
		x, y := b, name
		if x > y {
			x, y = y, x
		}
		pb := "(vmul " + x + " " + y + ")"
		pn, ok := p.bodies[pb]
		if !ok {
			pn = name + "!p"
			fmt.Fprintf(p.out, "(define-fun %s () Int %s)\n", pn, pb)
			p.bodies[pb] = pn
			m := mulApp{x, y, pn}
			p.mulAxioms(m)
			p.muls = append(p.muls, m)
		}
		fmt.Fprintf(p.out, "(assert (=> (> %s 0) (and (<= %s %s) (< %s (+ %s %s)))))\n", b, pn, a, a, pn, b)
		fmt.Fprintf(p.out, "(assert (=> (and (> %s 0) (>= %s 0)) (and (>= %s 0) (<= %s %s))))\n", b, a, name, name, a)
	}
	if isUF {
		m := mulApp{args[0], args[1], name}
		p.mulAxioms(m)
		p.muls = append(p.muls, m)
	}
	return name
}


// FPConst32 builds a float32 literal term from its IEEE bits.
func FPConst32(bits uint32) *Term {
	t := mk("fpconst", -32)
	t.Name = fmt.Sprintf("(fp #b%b #b%08b #b%023b)", bits>>31, (bits>>23)&0xff, bits&((1<<23)-1))
	return t
}

// FPConst builds a float64 literal term from its IEEE bits.
func FPConst(bits uint64) *Term {
	t := mk("fpconst", -64)
	sign := bits >> 63
	exp := (bits >> 52) & 0x7ff
	man := bits & ((1 << 52) - 1)
	t.Name = fmt.Sprintf("(fp #b%b #b%011b #b%052b)", sign, exp, man)
	return t
}
