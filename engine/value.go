package main

import (
	"fmt"
	"go/types"
	"math/big"
	"strings"

	"golang.org/x/tools/go/ssa"
)

type Value interface{}

type Struct []Value
type Array []Value
type Tuple []Value

type Slice struct {
	A   []Value // Go slice: len/cap/aliasing come for free
	Nil bool
}

type Str struct{ B []*Term } // each 8-bit

type Iface struct {
	T types.Type
	V Value
}

type Closure struct {
	Fn  *ssa.Function
	Env []Value
}

type Float struct {
	F    float64
	T    *Term // non-nil: symbolic term; T.W == -64 (float64) or -32 (float32)
	Is32 bool  // concrete float32 value (held exactly in F)
}

type BigInt struct{ T *Term } // W == -1

type Opaque struct{ Kind string } // logger, time, etc.

type MapEntry struct {
	K, V Value
	Dead bool
}
type Map struct {
	symKeys int
	E   []*MapEntry
	idx map[string]int // concrete-key fast path
}

type MapIter struct {
	m   *Map
	pos int
}
type StrIter struct {
	s   Str
	pos int
}

func concreteStr(s string) Str {
	b := make([]*Term, len(s))
	for i := 0; i < len(s); i++ {
		b[i] = BVConstU(8, uint64(s[i]))
	}
	return Str{b}
}

func (s Str) Concrete() (string, bool) {
	var sb strings.Builder
	for _, t := range s.B {
		if !t.IsConst() {
			return "", false
		}
		sb.WriteByte(byte(t.Val.Uint64()))
	}
	return sb.String(), true
}

func isBigInt(t types.Type) bool {
	if n, ok := t.(*types.Named); ok {
		o := n.Obj()
		return o.Pkg() != nil && o.Pkg().Path() == "math/big" && o.Name() == "Int"
	}
	return false
}

func isNamed(t types.Type, pkg, name string) bool {
	if n, ok := t.(*types.Named); ok {
		o := n.Obj()
		return o.Pkg() != nil && o.Pkg().Path() == pkg && o.Name() == name
	}
	return false
}

func intWidth(t types.Type) (int, bool, bool) { // width, signed, ok
	b, ok := t.Underlying().(*types.Basic)
	if !ok {
		return 0, false, false
	}
	switch b.Kind() {
	case types.Bool, types.UntypedBool:
		return 0, false, true
	case types.Int8:
		return 8, true, true
	case types.Int16:
		return 16, true, true
	case types.Int32, types.UntypedRune:
		return 32, true, true
	case types.Int, types.Int64, types.UntypedInt:
		return 64, true, true
	case types.Uint8:
		return 8, false, true
	case types.Uint16:
		return 16, false, true
	case types.Uint32:
		return 32, false, true
	case types.Uint, types.Uint64, types.Uintptr:
		return 64, false, true
	}
	return 0, false, false
}

// zero returns the zero value of type t.
func zero(t types.Type) Value {
	if isBigInt(t) {
		return BigInt{IntConst(big.NewInt(0))}
	}
	if isNamed(t, "sync", "Mutex") || isNamed(t, "sync", "RWMutex") || isNamed(t, "sync", "WaitGroup") || isNamed(t, "sync", "Once") {
		return &SyncObj{}
	}
	switch u := t.Underlying().(type) {
	case *types.Basic:
		if u.Kind() == types.UnsafePointer {
			return (*Value)(nil)
		}
		if u.Info()&types.IsString != 0 {
			return Str{}
		}
		if u.Info()&types.IsFloat != 0 {
			return Float{F: 0}
		}
		if w, _, ok := intWidth(t); ok {
			if w == 0 {
				return tFalse
			}
			return BVConstU(w, 0)
		}
		if u.Kind() == types.UntypedNil {
			return nil
		}
		panic(fmt.Sprintf("zero: basic %v", u))
	case *types.Pointer:
		return (*Value)(nil)
	case *types.Struct:
		s := make(Struct, u.NumFields())
		for i := range s {
			s[i] = zero(u.Field(i).Type())
		}
		return s
	case *types.Array:
		a := make(Array, u.Len())
		for i := range a {
			a[i] = zero(u.Elem())
		}
		return a
	case *types.Slice:
		return Slice{Nil: true}
	case *types.Map:
		return (*Map)(nil)
	case *types.Interface:
		return Iface{}
	case *types.Signature:
		return (*ssa.Function)(nil)
	case *types.Chan:
		return (*Chan)(nil)
	case *types.Tuple:
		if u.Len() == 1 {
			return zero(u.At(0).Type())
		}
		tt := make(Tuple, u.Len())
		for i := range tt {
			tt[i] = zero(u.At(i).Type())
		}
		return tt
	}
	panic(fmt.Sprintf("zero: %T %v", t, t))
}

// copyVal deep-copies aggregates with value semantics.
func copyVal(v Value) Value {
	switch v := v.(type) {
	case Struct:
		n := make(Struct, len(v))
		for i := range v {
			n[i] = copyVal(v[i])
		}
		return n
	case Array:
		n := make(Array, len(v))
		for i := range v {
			n[i] = copyVal(v[i])
		}
		return n
	case *SyncObj:
		c := *v
		return &c
	}
	return v
}

type SyncObj struct {
	W     bool // write-locked
	R     int
	Count int  // waitgroup
	Done  bool // once
}

type Chan struct {
	Q      []Value
	Cap    int
	Closed bool
}
