package main

// Path-condition driven simplification: equalities "term = constant" (and boolean literals) that
// the path condition contains are substituted into later branch conditions before the solver is
// asked. Pure optimisation: a condition that folds to a constant under facts implied by the path
// condition has exactly that truth value on the path.

import "math/big"

func (t *Term) shash() uint64 {
	if t.sh != 0 {
		return t.sh
	}
	h := uint64(1469598103934665603)
	mix := func(x uint64) { h = (h ^ x) * 1099511628211 }
	for i := 0; i < len(t.Op); i++ {
		mix(uint64(t.Op[i]))
	}
	mix(uint64(int64(t.W)) + 77)
	switch t.Op {
	case "const":
		for _, w := range t.Val.Bits() {
			mix(uint64(w))
		}
		mix(uint64(t.Val.Sign() + 2))
	case "var", "fpconst":
		for i := 0; i < len(t.Name); i++ {
			mix(uint64(t.Name[i]))
		}
	}
	for _, p := range t.P {
		mix(uint64(p) + 13)
	}
	for _, a := range t.Args {
		mix(a.shash())
	}
	if h == 0 {
		h = 1
	}
	t.sh = h
	return h
}

func structEq(a, b *Term) bool {
	if a == b {
		return true
	}
	if a.shash() != b.shash() || a.Op != b.Op || a.W != b.W || len(a.Args) != len(b.Args) || len(a.P) != len(b.P) {
		return false
	}
	switch a.Op {
	case "const":
		return a.Val.Cmp(b.Val) == 0
	case "var", "fpconst":
		return a.Name == b.Name
	}
	for i := range a.P {
		if a.P[i] != b.P[i] {
			return false
		}
	}
	for i := range a.Args {
		if !structEq(a.Args[i], b.Args[i]) {
			return false
		}
	}
	return true
}

type binding struct {
	t *Term
	c *Term
}

type facts struct {
	m map[uint64][]binding
	n int
}

func (f *facts) lookup(t *Term) *Term {
	if f.n == 0 {
		return nil
	}
	for _, b := range f.m[t.shash()] {
		if structEq(b.t, t) {
			return b.c
		}
	}
	return nil
}

func (f *facts) bind(t, c *Term) {
	if t.IsConst() {
		return
	}
	if f.m == nil {
		f.m = map[uint64][]binding{}
	}
	if f.lookup(t) != nil {
		return
	}
	f.m[t.shash()] = append(f.m[t.shash()], binding{t, c})
	f.n++
}

// learn records the facts a newly asserted conjunct gives.
func (f *facts) learn(t *Term) {
	switch t.Op {
	case "and":
		f.learn(t.Args[0])
		f.learn(t.Args[1])
		return
	case "not":
		x := t.Args[0]
		f.bind(x, tFalse)
		if x.Op == "or" { // not (a or b) = not a and not b
			f.learn(Not(x.Args[0]))
			f.learn(Not(x.Args[1]))
		}
		return
	case "=":
		if len(t.Args) == 2 {
			a, b := t.Args[0], t.Args[1]
			if b.IsConst() && !a.IsConst() {
				f.bind(a, b)
			} else if a.IsConst() && !b.IsConst() {
				f.bind(b, a)
			}
		}
	}
	if t.W == 0 && !t.IsConst() {
		f.bind(t, tTrue)
	}
}

// simp rewrites t under the known facts, rebuilding through the folding constructors.
func (f *facts) simp(t *Term, memo map[*Term]*Term) *Term {
	if f.n == 0 || t.IsConst() {
		return t
	}
	if r, ok := memo[t]; ok {
		return r
	}
	if c := f.lookup(t); c != nil {
		memo[t] = c
		return c
	}
	if len(t.Args) == 0 {
		memo[t] = t
		return t
	}
	changed := false
	args := make([]*Term, len(t.Args))
	for i, a := range t.Args {
		args[i] = f.simp(a, memo)
		if args[i] != a {
			changed = true
		}
	}
	r := t
	if changed {
		r = rebuild(t, args)
		if !r.IsConst() {
			if c := f.lookup(r); c != nil {
				r = c
			}
		}
	}
	memo[t] = r
	return r
}

func rebuild(t *Term, a []*Term) *Term {
	switch t.Op {
	case "bvadd", "bvsub", "bvmul", "bvand", "bvor", "bvxor", "bvudiv", "bvurem", "bvsdiv", "bvsrem", "bvshl", "bvlshr", "bvashr":
		return BVBin(t.Op, a[0], a[1])
	case "bvult", "bvule", "bvugt", "bvuge", "bvslt", "bvsle", "bvsgt", "bvsge":
		return BVCmp(t.Op, a[0], a[1])
	case "=":
		if a[0].W > 0 {
			return BVCmp("=", a[0], a[1])
		}
		if a[0].W == 0 {
			return Eq(a[0], a[1])
		}
		if a[0].W == -1 {
			return IntCmp("=", a[0], a[1])
		}
	case "not":
		return Not(a[0])
	case "and":
		return And(a[0], a[1])
	case "or":
		return Or(a[0], a[1])
	case "ite":
		return Ite(a[0], a[1], a[2])
	case "extract":
		return Extract(t.P[0], t.P[1], a[0])
	case "zero_extend":
		return ZeroExt(t.P[0], a[0])
	case "sign_extend":
		return SignExt(t.P[0], a[0])
	case "concat":
		return Concat(a[0], a[1])
	case "+", "-", "*":
		if t.W == -1 && len(a) == 2 {
			return IntBin(t.Op, a[0], a[1])
		}
	case "<", "<=", ">", ">=":
		if len(a) == 2 && a[0].W == -1 {
			return IntCmp(t.Op, a[0], a[1])
		}
	case "bv2nat":
		if a[0].IsConst() {
			return IntConst(new(big.Int).Set(a[0].Val))
		}
	}
	return mkP(t.Op, t.W, t.P, a...)
}
