package main

import (
	"fmt"
	"go/types"
	"math/big"

	"golang.org/x/tools/go/ssa"
)

func (in *Interp) conv(dst, src types.Type, x Value) Value {
	du, su := dst.Underlying(), src.Underlying()
	switch v := x.(type) {
	case *Term:
		if db, ok := du.(*types.Basic); ok {
			if db.Info()&types.IsInteger != 0 {
				dw, _, _ := intWidth(dst)
				_, ssg, _ := intWidth(src)
				switch {
				case dw == v.W:
					return v
				case dw < v.W:
					return Extract(dw-1, 0, v)
				case ssg:
					return SignExt(dw-v.W, v)
				default:
					return ZeroExt(dw-v.W, v)
				}
			}
			if db.Info()&types.IsFloat != 0 {
				if !v.IsConst() {
					fw := -64
					if db.Kind() == types.Float32 {
						fw = -32
					}
					_, ssg, _ := intWidth(src)
					if ssg {
						return Float{T: mk("to_fp_signed", fw, v)}
					}
					return Float{T: mk("to_fp_unsigned", fw, v)}
				}
				_, ssg, _ := intWidth(src)
				if ssg {
					return Float{F: float64(signed(v.W, v.Val).Int64())}
				}
				f, _ := new(big.Float).SetInt(v.Val).Float64()
				if db.Kind() == types.Float32 {
					return Float{F: float64(float32(f))}
				}
				return Float{F: f}
			}
			if db.Info()&types.IsString != 0 { // string(rune)
				if v.IsConst() {
					return concreteStr(string(rune(v.Val.Int64())))
				}
			}
		}
	case Float:
		if db, ok := du.(*types.Basic); ok {
			if db.Info()&types.IsFloat != 0 {
				if v.T != nil {
					// symbolic: float32 <-> float64 conversion (round to nearest even)
					want := -64
					if db.Kind() == types.Float32 {
						want = -32
					}
					if v.T.W == want {
						return v
					}
					return Float{T: mk("fp_to_fp", want, v.T)}
				}
				if db.Kind() == types.Float32 {
					return Float{F: float64(float32(v.F)), Is32: true}
				}
				return Float{F: v.F}
			}
			if db.Info()&types.IsInteger != 0 {
				dw, sg, _ := intWidth(dst)
				if v.T != nil {
					// out-of-range conversion is implementation-defined in Go: SMT leaves it unspecified too
					if sg {
						return mk("fp.to_sbv", dw, v.T)
					}
					return mk("fp.to_ubv", dw, v.T)
				}
				if sg {
					return BVConstI(dw, int64(v.F))
				}
				return BVConstU(dw, uint64(v.F))
			}
		}
	case Str:
		if _, ok := du.(*types.Basic); ok {
			return v
		}
		if ds, ok := du.(*types.Slice); ok { // []byte(s)
			if w, _, _ := intWidth(ds.Elem()); w == 8 {
				a := make([]Value, len(v.B))
				for i, b := range v.B {
					a[i] = b
				}
				return Slice{A: a}
			}
		}
	case Slice:
		if db, ok := du.(*types.Basic); ok && db.Info()&types.IsString != 0 { // string([]byte)
			b := make([]*Term, len(v.A))
			for i, e := range v.A {
				b[i] = e.(*Term)
			}
			return Str{b}
		}
		return v
	case *Value:
		return v
	}
	_ = su
	in.fail("conv %v -> %v of %T", src, dst, x)
	return nil
}

// concretize turns a (possibly symbolic) integer into a concrete one by forking over its feasible values.
func (in *Interp) concretize(t *Term, why string) int64 {
	if t.IsConst() {
		return signed(t.W, t.Val).Int64()
	}
	return in.ctx.Concretize(t, why)
}

func (in *Interp) sliceOp(ins *ssa.Slice, x, lo, hi, max Value) Value {
	x = in.force(x)
	var base []Value
	var isStr bool
	var str Str
	nilIn := false
	switch v := x.(type) {
	case Slice:
		base = v.A
		nilIn = v.Nil
	case Str:
		isStr, str = true, v
	case *Value: // *array
		if v == nil {
			panic(goPanic{concreteStr("slice of nil array pointer")})
		}
		base = []Value((*v).(Array))
	default:
		in.fail("slice of %T", x)
	}
	l := int64(0)
	var h int64
	if isStr {
		h = int64(len(str.B))
	} else {
		h = int64(len(base))
	}
	capb := int64(cap(base))
	if isStr {
		capb = h
	}
	if lo != nil {
		l = in.concretize(lo.(*Term), "slice lo")
	}
	if hi != nil {
		h = in.concretize(hi.(*Term), "slice hi")
	}
	m := capb
	if max != nil {
		m = in.concretize(max.(*Term), "slice max")
	}
	if l < 0 || l > h || h > m || m > capb {
		panic(goPanic{concreteStr(fmt.Sprintf("slice bounds out of range [%d:%d:%d] cap %d", l, h, m, capb))})
	}
	if isStr {
		return Str{str.B[l:h]}
	}
	if nilIn && l == 0 && h == 0 {
		return Slice{Nil: true}
	}
	return Slice{A: base[l:h:m]}
}

func (in *Interp) idx(i *Term, n int, what string) int {
	if i.IsConst() {
		v := signed(i.W, i.Val)
		if v.Sign() < 0 || v.Cmp(big.NewInt(int64(n))) >= 0 {
			panic(goPanic{concreteStr(fmt.Sprintf("index out of range [%s] with length %d", v, n))})
		}
		return int(v.Int64())
	}
	// symbolic index: out-of-range is a panic path; in-range forks over values
	oob := Or(BVCmp("bvslt", i, BVConstU(i.W, 0)), BVCmp("bvsge", i, BVConstI(i.W, int64(n))))
	in.ctx.PanicIf(oob, "index out of range (symbolic) "+what)
	return int(in.ctx.Concretize(i, "index "+what))
}

func (in *Interp) symPtr(a []Value, i *Term) Value {
	oob := Or(BVCmp("bvslt", i, BVConstU(i.W, 0)), BVCmp("bvsge", i, BVConstI(i.W, int64(len(a)))))
	in.ctx.PanicIf(oob, "index out of range (symbolic)")
	el := make([]*Value, len(a))
	for k := range a {
		el[k] = &a[k]
	}
	return SymPtr{Elems: el, Idx: i}
}

func (in *Interp) indexAddr(x Value, i *Term) Value {
	x = in.force(x)
	if !i.IsConst() {
		switch v := x.(type) {
		case Slice:
			if len(v.A) > 0 {
				return in.symPtr(v.A, i)
			}
		case *Value:
			if v != nil {
				return in.symPtr([]Value((*v).(Array)), i)
			}
		}
	}
	switch v := x.(type) {
	case Slice:
		return &v.A[in.idx(i, len(v.A), "slice")]
	case *Value:
		if v == nil {
			panic(goPanic{concreteStr("nil array pointer")})
		}
		a := (*v).(Array)
		return &a[in.idx(i, len(a), "array")]
	}
	in.fail("indexAddr on %T", x)
	return nil
}

func (in *Interp) index(x Value, i *Term) Value {
	x = in.force(x)
	switch v := x.(type) {
	case Array:
		if i.IsConst() {
			return copyVal(v[in.idx(i, len(v), "array")])
		}
		// symbolic read of scalar array: ite chain
		if _, ok := v[0].(*Term); ok {
			oob := Or(BVCmp("bvslt", i, BVConstU(i.W, 0)), BVCmp("bvsge", i, BVConstI(i.W, int64(len(v)))))
			in.ctx.PanicIf(oob, "index out of range (symbolic array)")
			r := v[len(v)-1].(*Term)
			for k := len(v) - 2; k >= 0; k-- {
				r = Ite(BVCmp("=", i, BVConstI(i.W, int64(k))), v[k].(*Term), r)
			}
			return r
		}
		return copyVal(v[in.idx(i, len(v), "array")])
	case Str:
		if i.IsConst() {
			return v.B[in.idx(i, len(v.B), "string")]
		}
		oob := Or(BVCmp("bvslt", i, BVConstU(i.W, 0)), BVCmp("bvsge", i, BVConstI(i.W, int64(len(v.B)))))
		in.ctx.PanicIf(oob, "index out of range (symbolic string)")
		r := v.B[len(v.B)-1]
		for k := len(v.B) - 2; k >= 0; k-- {
			r = Ite(BVCmp("=", i, BVConstI(i.W, int64(k))), v.B[k], r)
		}
		return r
	}
	in.fail("index on %T", x)
	return nil
}

// ---- maps ----

func mapKeyString(k Value) (string, bool) {
	switch k := k.(type) {
	case *Term:
		if k.IsConst() {
			return fmt.Sprintf("i%d:%s", k.W, k.Val), true
		}
	case Str:
		if s, ok := k.Concrete(); ok {
			return "s:" + s, true
		}
	case *Value:
		return fmt.Sprintf("p:%p", k), true
	case Iface:
		if k.T == nil {
			return "nilif", true
		}
		s, ok := mapKeyString(k.V)
		return "if:" + k.T.String() + ":" + s, ok
	case Struct:
		r := "st{"
		for _, f := range k {
			s, ok := mapKeyString(f)
			if !ok {
				return "", false
			}
			r += s + ","
		}
		return r + "}", true
	case Array:
		r := "ar{"
		for _, f := range k {
			s, ok := mapKeyString(f)
			if !ok {
				return "", false
			}
			r += s + ","
		}
		return r + "}", true
	}
	return "", false
}

func (in *Interp) mapFind(m *Map, k Value) *MapEntry {
	if m == nil {
		return nil
	}
	if ks, ok := mapKeyString(k); ok && m.allConcrete() {
		if i, ok := m.idx[ks]; ok && !m.E[i].Dead {
			return m.E[i]
		}
		return nil
	}
	// symbolic: fork over candidates
	for _, e := range m.E {
		if e.Dead {
			continue
		}
		c := in.equals(e.K, k)
		if c.IsFalse() {
			continue
		}
		if in.ctx.Branch(c) {
			return e
		}
	}
	return nil
}

func (m *Map) allConcrete() bool { return m.symKeys == 0 }

func (in *Interp) mapSet(m *Map, k, v Value) {
	in.logAccess(mapCell(m), true)
	if e := in.mapFind(m, k); e != nil {
		e.V = v
		return
	}
	ks, ok := mapKeyString(k)
	if ok {
		m.idx[ks] = len(m.E)
	} else {
		m.symKeys++
	}
	m.E = append(m.E, &MapEntry{K: k, V: v})
}

func (in *Interp) mapDelete(m *Map, k Value) {
	in.logAccess(mapCell(m), true)
	if e := in.mapFind(m, k); e != nil {
		e.Dead = true
		if ks, ok := mapKeyString(e.K); ok {
			delete(m.idx, ks)
		} else {
			m.symKeys--
		}
	}
}

func (m *Map) Len() int {
	if m == nil {
		return 0
	}
	n := 0
	for _, e := range m.E {
		if !e.Dead {
			n++
		}
	}
	return n
}

func (in *Interp) lookup(ins *ssa.Lookup, x, k Value) Value {
	x = in.force(x)
	if m, ok := x.(*Map); ok && m != nil {
		in.logAccess(mapCell(m), false)
	}
	switch v := x.(type) {
	case *Map:
		var val Value
		ok := tFalse
		if e := in.mapFind(v, k); e != nil {
			val, ok = copyVal(e.V), tTrue
		} else {
			val = zero(ins.X.Type().Underlying().(*types.Map).Elem())
		}
		if ins.CommaOk {
			return Tuple{val, ok}
		}
		return val
	case Str:
		kt := k.(*Term)
		if kt.W > 0 && kt.W < 64 {
			_, sg, _ := intWidth(ins.Index.Type())
			if sg {
				kt = SignExt(64-kt.W, kt)
			} else {
				kt = ZeroExt(64-kt.W, kt)
			}
		}
		return in.index(v, kt)
	}
	in.fail("lookup on %T", x)
	return nil
}

func (in *Interp) rangeIter(x Value) Value {
	x = in.force(x)
	if m, ok := x.(*Map); ok && m != nil {
		in.logAccess(mapCell(m), false)
	}
	switch v := x.(type) {
	case *Map:
		return &MapIter{m: v}
	case Str:
		return &StrIter{s: v}
	}
	in.fail("range over %T", x)
	return nil
}

func (in *Interp) next(ins *ssa.Next, it Value) Value {
	switch it := it.(type) {
	case *MapIter:
		if it.m != nil {
			for it.pos < len(it.m.E) {
				e := it.m.E[it.pos]
				it.pos++
				if !e.Dead {
					return Tuple{tTrue, e.K, copyVal(e.V)}
				}
			}
		}
		return Tuple{tFalse, nil, nil}
	case *StrIter:
		if it.pos < len(it.s.B) {
			i := it.pos
			it.pos++
			b := it.s.B[i]
			// byte-wise iteration (ASCII assumption) : rune = byte
			return Tuple{tTrue, BVConstI(64, int64(i)), ZeroExt(24, b)}
		}
		return Tuple{tFalse, BVConstI(64, 0), BVConstI(32, 0)}
	}
	in.fail("next on %T", it)
	return nil
}

func (in *Interp) typeAssert(ins *ssa.TypeAssert, x Iface) Value {
	var ok bool
	var v Value
	if x.T != nil {
		if it, isIface := ins.AssertedType.Underlying().(*types.Interface); isIface {
			ok = types.Implements(x.T, it) || in.opaqueImplements(x)
			v = x
		} else {
			ok = types.Identical(x.T, ins.AssertedType)
			v = x.V
		}
	}
	if !ok {
		if !ins.CommaOk {
			panic(goPanic{concreteStr(fmt.Sprintf("interface conversion: %v is not %v", x.T, ins.AssertedType))})
		}
		return Tuple{zero(ins.AssertedType), tFalse}
	}
	if ins.CommaOk {
		return Tuple{v, tTrue}
	}
	return v
}

func (in *Interp) opaqueImplements(x Iface) bool {
	_, ok := x.V.(Opaque)
	return ok
}

func (in *Interp) selectOp(ins *ssa.Select, fr *frame) Value {
	in.runGoroutines()
	for i, st := range ins.States {
		ch := fr.get(st.Chan).(*Chan)
		if ch == nil {
			continue
		}
		if st.Dir == types.RecvOnly {
			if len(ch.Q) > 0 || ch.Closed {
				r := Tuple{BVConstI(64, int64(i)), BoolConst(len(ch.Q) > 0)}
				for j, s2 := range ins.States {
					if s2.Dir == types.RecvOnly {
						if j == i && len(ch.Q) > 0 {
							r = append(r, ch.Q[0])
							ch.Q = ch.Q[1:]
						} else {
							r = append(r, zero(s2.Chan.Type().Underlying().(*types.Chan).Elem()))
						}
					}
				}
				return r
			}
		} else {
			if len(ch.Q) < ch.Cap || ch.Cap == 0 {
				ch.Q = append(ch.Q, fr.get(st.Send))
				r := Tuple{BVConstI(64, int64(i)), tFalse}
				for _, s2 := range ins.States {
					if s2.Dir == types.RecvOnly {
						r = append(r, zero(s2.Chan.Type().Underlying().(*types.Chan).Elem()))
					}
				}
				return r
			}
		}
	}
	if !ins.Blocking {
		r := Tuple{BVConstI(64, -1), tFalse}
		for _, s2 := range ins.States {
			if s2.Dir == types.RecvOnly {
				r = append(r, zero(s2.Chan.Type().Underlying().(*types.Chan).Elem()))
			}
		}
		return r
	}
	panic(abortPath{"deadlock in select"})
}

func (in *Interp) callBuiltin(b *ssa.Builtin, args []Value) Value {
	if len(args) > 0 {
		if g, ok := args[0].(Guarded); ok && (b.Name() == "len" || b.Name() == "cap") {
			var r *Term
			for i := len(g.Cases) - 1; i >= 0; i-- {
				l := in.callBuiltin(b, []Value{g.Cases[i].V}).(*Term)
				if r == nil {
					r = l
				} else {
					r = Ite(g.Cases[i].Cond, l, r)
				}
			}
			return r
		}
	}
	for i := range args {
		args[i] = in.force(args[i])
	}
	switch b.Name() {
	case "len":
		switch v := args[0].(type) {
		case Slice:
			return BVConstI(64, int64(len(v.A)))
		case Str:
			return BVConstI(64, int64(len(v.B)))
		case *Map:
			return BVConstI(64, int64(v.Len()))
		case Array:
			return BVConstI(64, int64(len(v)))
		case *Chan:
			if v == nil {
				return BVConstI(64, 0)
			}
			return BVConstI(64, int64(len(v.Q)))
		case *Value:
			return BVConstI(64, int64(len((*v).(Array))))
		}
	case "cap":
		switch v := args[0].(type) {
		case Slice:
			return BVConstI(64, int64(cap(v.A)))
		case Array:
			return BVConstI(64, int64(len(v)))
		}
	case "append":
		s := args[0].(Slice)
		switch t := args[1].(type) {
		case Slice:
			if len(t.A) == 0 {
				return s
			}
			n := append(s.A, t.A...)
			// copy semantic for aggregates
			for i := len(s.A); i < len(n); i++ {
				n[i] = copyVal(n[i])
			}
			return Slice{A: n}
		case Str:
			n := s.A
			for _, b := range t.B {
				n = append(n, b)
			}
			return Slice{A: n}
		}
	case "copy":
		d := args[0].(Slice)
		n := 0
		switch s := args[1].(type) {
		case Slice:
			tmp := make([]Value, len(s.A))
			copy(tmp, s.A)
			n = copy(d.A, tmp)
			for i := 0; i < n; i++ {
				d.A[i] = copyVal(d.A[i])
			}
		case Str:
			for i := 0; i < len(d.A) && i < len(s.B); i++ {
				d.A[i] = s.B[i]
				n++
			}
		}
		return BVConstI(64, int64(n))
	case "delete":
		if m := args[0].(*Map); m != nil {
			in.mapDelete(m, args[1])
		}
		return nil
	case "close":
		args[0].(*Chan).Closed = true
		return nil
	case "panic":
		panic(goPanic{args[0]})
	case "recover":
		if n := len(in.curRecoverFrame); n > 0 {
			fr := in.curRecoverFrame[n-1]
			if fr.panicking {
				fr.panicking = false
				v := fr.panicVal
				if _, ok := v.(Iface); ok {
					return v
				}
				return Iface{T: types.Typ[types.String], V: v}
			}
		}
		return Iface{}
	case "print", "println":
		return nil
	case "ssa:wrapnilchk":
		p := args[0].(*Value)
		if p == nil {
			panic(goPanic{concreteStr("nil receiver in wrapper")})
		}
		return p
	}
	in.fail("builtin %s on %T", b.Name(), args[0])
	return nil
}
