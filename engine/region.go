package main

import (
	"sync"
	"go/token"

	"golang.org/x/tools/go/ssa"
)

// Veritesting-style merging: at a symbolic branch, if the region up to the immediate
// post-dominator is acyclic and side-effect free, evaluate all region paths and merge the
// join block's phis with ite / guarded values instead of forking the path.

var ipdomCache = map[*ssa.Function]map[*ssa.BasicBlock]*ssa.BasicBlock{}

var ipdomMu sync.Mutex

func ipdoms(fn *ssa.Function) map[*ssa.BasicBlock]*ssa.BasicBlock {
	ipdomMu.Lock()
	defer ipdomMu.Unlock()
	if m, ok := ipdomCache[fn]; ok {
		return m
	}
	n := len(fn.Blocks)
	// pdom sets as bitsets (small functions); exit = blocks without successors
	all := make([]bool, n)
	for i := range all {
		all[i] = true
	}
	pd := make([][]bool, n)
	for i, b := range fn.Blocks {
		pd[i] = make([]bool, n)
		if len(b.Succs) == 0 {
			pd[i][i] = true
		} else {
			copy(pd[i], all)
		}
	}
	changed := true
	for changed {
		changed = false
		for i := n - 1; i >= 0; i-- {
			b := fn.Blocks[i]
			if len(b.Succs) == 0 {
				continue
			}
			nw := make([]bool, n)
			copy(nw, all)
			for _, s := range b.Succs {
				for k := 0; k < n; k++ {
					nw[k] = nw[k] && pd[s.Index][k]
				}
			}
			nw[i] = true
			for k := 0; k < n; k++ {
				if nw[k] != pd[i][k] {
					changed = true
				}
			}
			pd[i] = nw
		}
	}
	res := map[*ssa.BasicBlock]*ssa.BasicBlock{}
	for i, b := range fn.Blocks {
		// immediate pdom: the strict post-dominator that is post-dominated by all other strict post-dominators
		var cands []int
		for k := 0; k < n; k++ {
			if k != i && pd[i][k] {
				cands = append(cands, k)
			}
		}
		for _, c := range cands {
			ok := true
			for _, d := range cands {
				if d != c && !pd[c][d] {
					ok = false
					break
				}
			}
			if ok {
				res[b] = fn.Blocks[c]
				break
			}
		}
	}
	ipdomCache[fn] = res
	return res
}

var pureIntrinsics = map[string]bool{"math/bits.Len64": true, "math/bits.Len32": true, "math/bits.Len": true, "math/bits.OnesCount8": true, "math/bits.Len8": true, "math/bits.Len16": true,
	"math/bits.TrailingZeros64": true, "math/bits.TrailingZeros32": true, "math/bits.TrailingZeros": true}

var pureFnCache = map[*ssa.Function]bool{}
var pureFnMu sync.Mutex

// pureCallee: a straight-line (single block) function made of pure instructions only; safe to
// evaluate inside a merged region because it can neither fork, nor write memory, nor panic.
func pureCallee(fn *ssa.Function) bool {
	if fn == nil {
		return false
	}
	if pureIntrinsics[fn.String()] {
		return true
	}
	pureFnMu.Lock()
	r, ok := pureFnCache[fn]
	pureFnMu.Unlock()
	if ok {
		return r
	}
	r = false
	if _, isIntr := intrinsics[fn.String()]; !isIntr && len(fn.Blocks) == 1 && !isVarintSizeFn(fn) {
		r = true
		pureFnMu.Lock()
		pureFnCache[fn] = false // recursion guard
		pureFnMu.Unlock()
		for _, ins := range fn.Blocks[0].Instrs {
			if _, isRet := ins.(*ssa.Return); isRet {
				continue
			}
			switch ins.(type) {
			case *ssa.IndexAddr, *ssa.Index, *ssa.Slice, *ssa.TypeAssert:
				r = false // may panic
			}
			if u, isUn := ins.(*ssa.UnOp); isUn && u.Op == token.MUL {
				r = false // load may hit nil
			}
			if !pureInstr(ins) {
				r = false
			}
			if !r {
				break
			}
		}
	}
	pureFnMu.Lock()
	pureFnCache[fn] = r
	pureFnMu.Unlock()
	return r
}

func constNonZero(v ssa.Value) bool {
	c, ok := v.(*ssa.Const)
	if !ok || c.Value == nil {
		return false
	}
	return c.Value.String() != "0"
}

func pureInstr(ins ssa.Instruction) bool {
	switch i := ins.(type) {
	case *ssa.BinOp:
		if i.Op == token.QUO || i.Op == token.REM {
			return constNonZero(i.Y)
		}
		return true
	case *ssa.UnOp:
		return i.Op != token.ARROW
	case *ssa.IndexAddr, *ssa.Index, *ssa.Slice, *ssa.TypeAssert:
		return true
	case *ssa.Call:
		if bi, ok := i.Call.Value.(*ssa.Builtin); ok {
			return bi.Name() == "len" || bi.Name() == "cap"
		}
		if i.Call.IsInvoke() {
			return false
		}
		if f, ok := i.Call.Value.(*ssa.Function); ok {
			return pureCallee(f)
		}
		return false
	case *ssa.Convert, *ssa.ChangeType, *ssa.Jump, *ssa.If, *ssa.DebugRef, *ssa.Phi, *ssa.FieldAddr, *ssa.Field, *ssa.Extract, *ssa.MakeInterface, *ssa.ChangeInterface:
		return true
	}
	return false
}

type regionPath struct {
	cond *Term
	pred *ssa.BasicBlock
	env  map[ssa.Value]Value
}

func (fr *frame) tryMergeRegion(c *Term) (merged bool) {
	b := fr.block
	J := ipdoms(fr.fn)[b]
	if J == nil || J == b {
		return false
	}
	// collect region blocks, check purity and acyclicity
	onStack := map[*ssa.BasicBlock]bool{}
	checked := map[*ssa.BasicBlock]bool{}
	var check func(x *ssa.BasicBlock) bool
	check = func(x *ssa.BasicBlock) bool {
		if x == J {
			return true
		}
		if onStack[x] || x == b {
			return false // cycle
		}
		if checked[x] {
			return true
		}
		for _, ins := range x.Instrs {
			if !pureInstr(ins) {
				return false
			}
		}
		onStack[x] = true
		for _, s := range x.Succs {
			if !check(s) {
				return false
			}
		}
		onStack[x] = false
		checked[x] = true
		return len(x.Succs) > 0
	}
	if !check(b.Succs[0]) || !check(b.Succs[1]) {
		return false
	}
	saved := fr.env
	savedPrev, savedBlock, savedCur := fr.prev, fr.block, fr.cur
	defer func() {
		if r := recover(); r != nil {
			if _, isPanic := r.(goPanic); !isPanic {
				_, isBug := r.(engineBug)
				if _, isTimeout := r.(solverTimeout); !isBug || isTimeout {
					panic(r)
				}
			}
			fr.env, fr.prev, fr.block, fr.cur = saved, savedPrev, savedBlock, savedCur
			merged = false
		}
	}()
	var paths []regionPath
	var walk func(x, pred *ssa.BasicBlock, cond *Term, env map[ssa.Value]Value) bool
	walk = func(x, pred *ssa.BasicBlock, cond *Term, env map[ssa.Value]Value) bool {
		if x == J {
			paths = append(paths, regionPath{cond, pred, env})
			return len(paths) <= 64
		}
		fr.env = env
		fr.prev = pred
		fr.block = x
		for _, ins := range x.Instrs {
			switch ins := ins.(type) {
			case *ssa.Jump:
				return walk(x.Succs[0], x, cond, env)
			case *ssa.If:
				ct := fr.get(ins.Cond).(*Term)
				if ct.IsConst() {
					if ct.IsTrue() {
						return walk(x.Succs[0], x, cond, env)
					}
					return walk(x.Succs[1], x, cond, env)
				}
				e2 := make(map[ssa.Value]Value, len(env)+8)
				for k, v := range env {
					e2[k] = v
				}
				if !walk(x.Succs[0], x, And(cond, ct), env) {
					return false
				}
				return walk(x.Succs[1], x, And(cond, Not(ct)), e2)
			default:
				fr.skipPhis = false
				fr.exec(ins)
			}
		}
		return false
	}
	clone := func() map[ssa.Value]Value {
		e := make(map[ssa.Value]Value, len(saved)+8)
		for k, v := range saved {
			e[k] = v
		}
		return e
	}
	ok := walk(b.Succs[0], b, c, clone()) && walk(b.Succs[1], b, Not(c), clone())
	fr.env, fr.prev, fr.block, fr.cur = saved, savedPrev, savedBlock, savedCur
	if !ok || len(paths) == 0 {
		return false
	}
	// merge phis of J
	vals := map[*ssa.Phi]Value{}
	for _, ins := range J.Instrs {
		phi, isPhi := ins.(*ssa.Phi)
		if !isPhi {
			break
		}
		var r Value
		for pi := len(paths) - 1; pi >= 0; pi-- {
			p := paths[pi]
			var ev Value
			for i, pr := range J.Preds {
				if pr == p.pred {
					fr.env = p.env
					ev = fr.get(phi.Edges[i])
					fr.env = saved
					break
				}
			}
			if pi == len(paths)-1 {
				r = ev
			} else {
				r = mergeVal(p.cond, ev, r)
			}
		}
		vals[phi] = r
	}
	// values defined inside the region are dead after J except through phis (SSA)
	for phi, v := range vals {
		fr.env[phi] = v
	}
	fr.skipPhis = true
	fr.block = J
	fr.in.ctx.ex.Merges++
	return true
}
