package main

// Guarded values: a non-scalar value selected by symbolic conditions (mutually exclusive,
// exhaustive under the path condition). Created by reads/writes at symbolic array indices.

type GCase struct {
	Cond *Term
	V    Value
}
type Guarded struct{ Cases []GCase }

// SymPtr is the address of element idx (symbolic) of a sequence of cells.
type SymPtr struct {
	Elems []*Value
	Idx   *Term
}

func isScalar(v Value) bool {
	switch v.(type) {
	case *Term:
		return true
	}
	return false
}

func sameRef(a, b Value) bool {
	switch x := a.(type) {
	case *Value:
		y, ok := b.(*Value)
		return ok && x == y
	case Iface:
		y, ok := b.(Iface)
		if !ok {
			return false
		}
		if x.T == nil || y.T == nil {
			return x.T == nil && y.T == nil
		}
		return x.T == y.T && sameRef(x.V, y.V)
	case *Map:
		y, ok := b.(*Map)
		return ok && x == y
	case nil:
		return b == nil
	}
	return false
}

// mergeVal builds "if c then a else b".
func mergeVal(c *Term, a, b Value) Value {
	if c.IsTrue() {
		return a
	}
	if c.IsFalse() {
		return b
	}
	if ta, ok := a.(*Term); ok {
		return Ite(c, ta, b.(*Term))
	}
	if sameRef(a, b) {
		return a
	}
	var cases []GCase
	add := func(cond *Term, v Value) {
		if cond.IsFalse() {
			return
		}
		for i := range cases {
			if sameRef(cases[i].V, v) {
				cases[i].Cond = Or(cases[i].Cond, cond)
				return
			}
		}
		cases = append(cases, GCase{cond, v})
	}
	flat := func(cond *Term, v Value) {
		if g, ok := v.(Guarded); ok {
			for _, gc := range g.Cases {
				add(And(cond, gc.Cond), gc.V)
			}
			return
		}
		add(cond, v)
	}
	flat(c, a)
	flat(Not(c), b)
	if len(cases) == 1 {
		return cases[0].V
	}
	return Guarded{cases}
}

// force resolves a guarded value to one concrete case by forking.
func (in *Interp) force(v Value) Value {
	g, ok := v.(Guarded)
	if !ok {
		return v
	}
	for i, c := range g.Cases {
		if i == len(g.Cases)-1 {
			in.ctx.Assume(c.Cond)
			return in.force(c.V)
		}
		if in.ctx.Branch(c.Cond) {
			return in.force(c.V)
		}
	}
	panic("empty guarded value")
}

func (in *Interp) loadSym(p SymPtr) Value {
	n := len(p.Elems)
	var r Value = copyVal(*p.Elems[n-1])
	for k := n - 2; k >= 0; k-- {
		r = mergeVal(BVCmp("=", p.Idx, BVConstI(p.Idx.W, int64(k))), copyVal(*p.Elems[k]), r)
	}
	return r
}

func (in *Interp) storeSym(p SymPtr, v Value) {
	for k := range p.Elems {
		*p.Elems[k] = mergeVal(BVCmp("=", p.Idx, BVConstI(p.Idx.W, int64(k))), v, *p.Elems[k])
	}
}
