package main

import (
	"fmt"
	"go/types"
	"math/big"
	"strings"
)

// verifFill(obj, wide): fills the struct obj points to with symbolic content, for the protobuf
// round-trip checks. Every scalar "slot" (integer, bool, []byte, [][]byte, string, *big.Int, repeated
// message) is numbered in field order; the slot number `wide` ranges over all its values / lengths,
// all other slots are confined to one encoding-length class (integers 1..127, bytes of length L,
// one repeated element), so that the encoder does not fork on every field at once.
type filler struct {
	in   *Interp
	wide int
	slot int
	L    int
	tag  string
}

func (f *filler) isWide() bool {
	w := f.slot == f.wide
	f.slot++
	return w
}

func (f *filler) bytesVal(name string, n int) Slice {
	a := make([]Value, n)
	for i := range a {
		a[i] = f.in.ctx.NewVar(fmt.Sprintf("%s_%s_%d", f.tag, name, i), 8)
	}
	return Slice{A: a}
}

func (f *filler) fillType(t types.Type, name string, depth int) Value {
	in := f.in
	if isBigInt(t) {
		return zero(t)
	}
	if p, ok := t.Underlying().(*types.Pointer); ok {
		if isBigInt(p.Elem()) {
			if f.isWide() {
				switch in.ctx.Concretize(in.choiceVar(f.tag+"_"+name+"_bigkind", 6), "fill big kind") {
				case 4:
					// full 64-bit magnitudes (word boundary of the big.Int representation)
					x := in.ctx.NewVar(f.tag+"_"+name, 64)
					in.ctx.Assume(BVCmp("bvuge", x, BVConstU(64, 1<<56)))
					return newBig(bvToIntU(x))
				case 5:
					// 65..72-bit magnitudes
					x := in.ctx.NewVar(f.tag+"_"+name, 72)
					in.ctx.Assume(BVCmp("bvuge", x, BVConst(72, new(big.Int).Lsh(big.NewInt(1), 64))))
					return newBig(bvToIntU(x))
				case 0:
					return (*Value)(nil)
				case 1:
					return newBig(IntConst(big.NewInt(0)))
				case 2:
					// integers are built from bit-vector variables so that Bytes() needs no int2bv
					x := in.ctx.NewVar(f.tag+"_"+name, 24)
					in.ctx.Assume(Not(BVCmp("=", x, BVConstU(24, 0))))
					return newBig(bvToIntU(x))
				default:
					x := in.ctx.NewVar(f.tag+"_"+name, 8)
					in.ctx.Assume(Not(BVCmp("=", x, BVConstU(8, 0))))
					return newBig(IntBin("-", IntConst(big.NewInt(0)), bvToIntU(x)))
				}
			}
			x := in.ctx.NewVar(f.tag+"_"+name, 8)
			in.ctx.Assume(Not(BVCmp("=", x, BVConstU(8, 0))))
			return newBig(bvToIntU(x))
		}
		if st, ok := p.Elem().Underlying().(*types.Struct); ok {
			if depth >= 2 {
				return (*Value)(nil)
			}
			var v Value = f.fillStruct(st, name, depth+1)
			return &v
		}
		return zero(t)
	}
	switch u := t.Underlying().(type) {
	case *types.Basic:
		switch {
		case u.Info()&types.IsBoolean != 0:
			if f.isWide() {
				return in.ctx.NewVar(f.tag+"_"+name, 0)
			}
			return tTrue
		case u.Info()&types.IsInteger != 0:
			w, _, _ := intWidth(t)
			v := in.ctx.NewVar(f.tag+"_"+name, w)
			if !f.isWide() {
				in.ctx.Assume(And(BVCmp("bvuge", v, BVConstU(w, 1)), BVCmp("bvule", v, BVConstU(w, 127))))
			}
			return v
		case u.Info()&types.IsString != 0:
			n := f.L
			if f.isWide() {
				n = []int{0, 1, f.L + 1}[in.ctx.Concretize(in.choiceVar(f.tag+"_"+name+"_len", 3), "fill len")]
			}
			b := make([]*Term, n)
			for i := range b {
				b[i] = in.ctx.NewVar(fmt.Sprintf("%s_%s_%d", f.tag, name, i), 8)
				in.ctx.Assume(BVCmp("bvult", b[i], BVConstU(8, 128)))
			}
			return Str{b}
		}
		return zero(t)
	case *types.Struct:
		return f.fillStruct(u, name, depth)
	case *types.Slice:
		if eb, ok := u.Elem().Underlying().(*types.Basic); ok && eb.Kind() == types.Uint8 {
			n := f.L
			if f.isWide() {
				n = []int{0, 1, f.L + 1}[in.ctx.Concretize(in.choiceVar(f.tag+"_"+name+"_len", 3), "fill len")]
				if n == 0 {
					return Slice{Nil: true}
				}
			}
			return f.bytesVal(name, n)
		}
		r := 1
		if f.isWide() {
			r = []int{0, 2}[in.ctx.Concretize(in.choiceVar(f.tag+"_"+name+"_rep", 2), "fill rep")]
			if r == 0 {
				return Slice{Nil: true}
			}
		}
		out := make([]Value, r)
		for i := range out {
			sub := &filler{in: in, wide: -1, L: f.L, tag: fmt.Sprintf("%s_%s%d", f.tag, name, i)}
			out[i] = sub.fillType(u.Elem(), name, depth+1)
		}
		return Slice{A: out}
	}
	return zero(t)
}

func (f *filler) fillStruct(st *types.Struct, name string, depth int) Struct {
	s := make(Struct, st.NumFields())
	for i := 0; i < st.NumFields(); i++ {
		fld := st.Field(i)
		if !fld.Exported() || strings.HasPrefix(fld.Name(), "XXX_") {
			s[i] = zero(fld.Type())
			continue
		}
		s[i] = f.fillType(fld.Type(), name+fld.Name(), depth)
	}
	return s
}

func (in *Interp) choiceVar(name string, n int) *Term {
	v := in.ctx.NewVar(name, 64)
	in.ctx.Assume(BVCmp("bvult", v, BVConstI(64, int64(n))))
	return v
}

func (in *Interp) verifFill(obj Value, wide int, tag string) int {
	ifc := obj.(Iface)
	p := ifc.V.(*Value)
	pt := ifc.T.Underlying().(*types.Pointer)
	st := pt.Elem().Underlying().(*types.Struct)
	L := 2
	if v, ok := in.ctx.ex.Params["fillLen"]; ok {
		L = int(v)
	}
	f := &filler{in: in, wide: wide, L: L, tag: tag}
	*p = f.fillStruct(st, "", 0)
	return f.slot
}
