package main

import (
	"flag"
	"fmt"
	"os"
	"path/filepath"
	"sort"
	"strings"
	"time"

	"golang.org/x/tools/go/ssa"
)

var verifRoot = "/verif"
var repoDir = "/repo"

func findRoot() {
	if r := os.Getenv("VERIF_ROOT"); r != "" {
		verifRoot = r
	} else if exe, err := os.Executable(); err == nil {
		d := filepath.Dir(filepath.Dir(exe))
		if _, err := os.Stat(filepath.Join(d, "specs")); err == nil {
			verifRoot = d
		}
	}
	if r := os.Getenv("VERIF_REPO"); r != "" {
		repoDir = r
	}
}

func main() {
	findRoot()
	if len(os.Args) > 1 && os.Args[1] == "check" {
		os.Exit(cmdCheck(os.Args[2:]))
	}
	if len(os.Args) > 1 && os.Args[1] == "selftest" {
		os.Exit(cmdSelftest(os.Args[2:]))
	}
	devMain()
}

// devMain: ad-hoc runs while writing harnesses:  gosx -pkg ./x -harness h.go -entry Verif_...
func devMain() {
	pkgPat := flag.String("pkg", "", "package pattern relative to the repo")
	harness := flag.String("harness", "", "harness file (comma separated)")
	entry := flag.String("entry", "", "entry function name(s), comma separated")
	maxPaths := flag.Int("maxpaths", 100000, "max paths")
	logf := flag.String("smtlog", "", "smt log")
	workers := flag.Int("workers", 8, "parallel workers")
	replay := flag.Bool("replay", false, "replay first violation natively")
	timeout := flag.Int("timeout", 10000, "solver timeout ms")
	params := flag.String("params", "", "k=v,k=v harness parameters")
	maxWall := flag.Int("maxwall", 120, "wall-clock budget in seconds per entry")
	ufmul := flag.Bool("ufmul", false, "product abstraction")
	summ := flag.String("summaries", "", "target=harnessFn,... function summaries")
	flag.Parse()
	t0 := time.Now()
	u := Unit{Pkg: *pkgPat, Harness: strings.Split(*harness, ",")}
	ld, err := loadUnits([]Unit{u})
	if err != nil {
		fmt.Println("LOAD ERROR", err)
		os.Exit(2)
	}
	fmt.Printf("loaded+built in %v\n", time.Since(t0))
	pm := map[string]int64{}
	for _, kv := range strings.Split(*params, ",") {
		if i := strings.Index(kv, "="); i > 0 {
			var v int64
			fmt.Sscan(kv[i+1:], &v)
			pm[kv[:i]] = v
		}
	}
	for _, en := range strings.Split(*entry, ",") {
		fn := ld.pkgOf[u.Pkg].Func(en)
		if fn == nil {
			fmt.Println("no entry", en)
			os.Exit(2)
		}
		var sums map[string]*ssa.Function
		if *summ != "" {
			sums = map[string]*ssa.Function{}
			for _, kv := range strings.Split(*summ, ",") {
				i := strings.LastIndex(kv, "=")
				sums[kv[:i]] = ld.pkgOf[u.Pkg].Func(kv[i+1:])
			}
		}
		res := runEntry(ld.prog, fn, runOpts{Summaries: sums, UFMul: *ufmul, Workers: *workers, MaxPaths: *maxPaths, TimeoutMs: *timeout, Params: pm, SmtLog: *logf, MaxWallS: *maxWall})
		ex := res.ex
		fmt.Printf("== %s: paths=%d cut=%d asserts=%d violations=%d unknown=%d boundhits=%d steps=%d queries=%d solver=%v wall=%v\n",
			en, ex.Paths, ex.Cut, ex.Asserts, len(ex.Viol), ex.Unknown, ex.BoundHits, ex.Steps+0*ex.ExactRechecks, res.queries, res.solverTime.Round(time.Millisecond), res.wall.Round(time.Millisecond))
		fmt.Println("   reached:", ex.Reached, "simp-decided:", ex.SimpDecided, "interval-decided:", ex.AbsDecided, "exact rechecks:", ex.ExactRechecks, "unknown sites:", ex.UnknownSites)
		if len(ex.Errors) > 0 {
			fmt.Println("   errors:", ex.Errors)
		}
		if len(ex.InitFailures) > 0 {
			fmt.Println("   init failures:", ex.InitFailures)
		}
		if len(ex.Panics) > 0 {
			fmt.Println("   panics:", ex.Panics)
		}
		for k, v := range ex.Notes {
			fmt.Printf("   note %5d %s\n", v, k)
		}
		type kv struct {
			k string
			v int
		}
		var fs []kv
		for k, v := range ex.ForkSites {
			fs = append(fs, kv{k, v})
		}
		sort.Slice(fs, func(i, j int) bool { return fs[i].v > fs[j].v })
		for i, f := range fs {
			if i >= 12 {
				break
			}
			fmt.Printf("   fork site %5d %s\n", f.v, f.k)
		}
		fs = nil
		for k, v := range ex.QuerySites {
			fs = append(fs, kv{k, v})
		}
		sort.Slice(fs, func(i, j int) bool { return fs[i].v > fs[j].v })
		for i, f := range fs {
			if i >= 12 {
				break
			}
			fmt.Printf("   query site %6d %s\n", f.v, f.k)
		}
		var fns []string
		for f := range ex.FuncsHit {
			fns = append(fns, f)
		}
		sort.Strings(fns)
		fmt.Println("   functions:", strings.Join(fns, "; "))
		if *replay && len(ex.Viol) > 0 {
			v := ex.Viol[0]
			ok, out := replayNative(ld, u, en, v, pm, filepath.Join(verifRoot, "out", "replay", "dev", en))
			fmt.Printf("   REPLAY of first counterexample (%q): reproduced natively = %v\n", v.Msg, ok)
			if !ok {
				fmt.Println(out)
			} else {
				for _, l := range strings.Split(out, "\n") {
					if strings.Contains(l, "REPRODUCED") {
						fmt.Println("     ", strings.TrimSpace(l))
					}
				}
			}
		}
		for i, v := range ex.Viol {
			if i >= 6 {
				break
			}
			fmt.Printf("   VIOLATION %q path=%v model: %s\n", v.Msg, v.Path, modelString(v.Model))
		}
	}
}
