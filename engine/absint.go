package main

import "math/big"

// Unsigned interval evaluation of bit-vector terms. It decides, without a solver call, the many
// branches and varint-length concretisations whose outcome follows from value ranges alone (generated
// protobuf code over symbolic fields that are known to be small). A decision taken here is valid for
// every assignment that satisfies the bounds learned from the path condition, so it is the decision
// the solver would have returned; everything else still goes to the solver.

type ival struct{ lo, hi *big.Int }

type absInt struct {
	memo map[*Term]ival
	tri  map[*Term]int8 // 1 true, 2 false, 3 unknown
	vb   map[string]ival
}

var bigZero = big.NewInt(0)
var bigOne = big.NewInt(1)

func newAbsInt() *absInt {
	return &absInt{memo: map[*Term]ival{}, tri: map[*Term]int8{}, vb: map[string]ival{}}
}

func fullIval(w int) ival { return ival{bigZero, mask(w)} }

func pow2(n int) *big.Int { return new(big.Int).Lsh(bigOne, uint(n)) }

func maxBig(a, b *big.Int) *big.Int {
	if a.Cmp(b) >= 0 {
		return a
	}
	return b
}
func minBig(a, b *big.Int) *big.Int {
	if a.Cmp(b) <= 0 {
		return a
	}
	return b
}

func (a *absInt) iv(t *Term) ival {
	if t.W <= 0 {
		return ival{bigZero, bigZero}
	}
	if t.Op == "const" {
		return ival{t.Val, t.Val}
	}
	if r, ok := a.memo[t]; ok {
		return r
	}
	r := a.iv1(t)
	a.memo[t] = r
	return r
}

func (a *absInt) iv1(t *Term) ival {
	w := t.W
	full := fullIval(w)
	switch t.Op {
	case "var":
		if b, ok := a.vb[t.Name]; ok {
			return b
		}
		return full
	case "zero_extend":
		return a.iv(t.Args[0])
	case "sign_extend":
		x := a.iv(t.Args[0])
		if x.hi.Cmp(pow2(t.Args[0].W-1)) < 0 {
			return x
		}
		return full
	case "extract":
		x := a.iv(t.Args[0])
		hi, lo := t.P[0], t.P[1]
		l, h := new(big.Int).Rsh(x.lo, uint(lo)), new(big.Int).Rsh(x.hi, uint(lo))
		if h.Cmp(pow2(hi-lo+1)) < 0 {
			return ival{l, h}
		}
		return full
	case "concat":
		x, y := a.iv(t.Args[0]), a.iv(t.Args[1])
		bw := uint(t.Args[1].W)
		return ival{new(big.Int).Add(new(big.Int).Lsh(x.lo, bw), y.lo), new(big.Int).Add(new(big.Int).Lsh(x.hi, bw), y.hi)}
	case "ite":
		switch a.triOf(t.Args[0]) {
		case 1:
			return a.iv(t.Args[1])
		case 2:
			return a.iv(t.Args[2])
		}
		x, y := a.iv(t.Args[1]), a.iv(t.Args[2])
		return ival{minBig(x.lo, y.lo), maxBig(x.hi, y.hi)}
	}
	if len(t.Args) != 2 || t.Args[0].W != w || t.Args[1].W != w {
		return full
	}
	x, y := a.iv(t.Args[0]), a.iv(t.Args[1])
	lim := pow2(w)
	half := pow2(w - 1)
	switch t.Op {
	case "bvand":
		return ival{bigZero, minBig(x.hi, y.hi)}
	case "bvor":
		m := maxBig(x.hi, y.hi)
		return ival{maxBig(x.lo, y.lo), new(big.Int).Sub(pow2(m.BitLen()), bigOne)}
	case "bvxor":
		m := maxBig(x.hi, y.hi)
		return ival{bigZero, new(big.Int).Sub(pow2(m.BitLen()), bigOne)}
	case "bvadd":
		h := new(big.Int).Add(x.hi, y.hi)
		if h.Cmp(lim) < 0 {
			return ival{new(big.Int).Add(x.lo, y.lo), h}
		}
	case "bvsub":
		if x.lo.Cmp(y.hi) >= 0 {
			return ival{new(big.Int).Sub(x.lo, y.hi), new(big.Int).Sub(x.hi, y.lo)}
		}
	case "bvmul":
		h := new(big.Int).Mul(x.hi, y.hi)
		if h.Cmp(lim) < 0 {
			return ival{new(big.Int).Mul(x.lo, y.lo), h}
		}
	case "bvudiv":
		if y.lo.Sign() > 0 {
			return ival{new(big.Int).Div(x.lo, y.hi), new(big.Int).Div(x.hi, y.lo)}
		}
	case "bvsdiv":
		if y.lo.Sign() > 0 && x.hi.Cmp(half) < 0 && y.hi.Cmp(half) < 0 {
			return ival{new(big.Int).Div(x.lo, y.hi), new(big.Int).Div(x.hi, y.lo)}
		}
	case "bvurem":
		if y.lo.Sign() > 0 {
			return ival{bigZero, minBig(x.hi, new(big.Int).Sub(y.hi, bigOne))}
		}
	case "bvsrem":
		if y.lo.Sign() > 0 && x.hi.Cmp(half) < 0 && y.hi.Cmp(half) < 0 {
			return ival{bigZero, minBig(x.hi, new(big.Int).Sub(y.hi, bigOne))}
		}
	case "bvlshr":
		if y.lo.Cmp(y.hi) == 0 && y.lo.IsInt64() && y.lo.Int64() < int64(w) {
			s := uint(y.lo.Int64())
			return ival{new(big.Int).Rsh(x.lo, s), new(big.Int).Rsh(x.hi, s)}
		}
		return ival{bigZero, x.hi}
	case "bvashr":
		if x.hi.Cmp(half) < 0 {
			if y.lo.Cmp(y.hi) == 0 && y.lo.IsInt64() && y.lo.Int64() < int64(w) {
				s := uint(y.lo.Int64())
				return ival{new(big.Int).Rsh(x.lo, s), new(big.Int).Rsh(x.hi, s)}
			}
			return ival{bigZero, x.hi}
		}
	case "bvshl":
		if y.lo.Cmp(y.hi) == 0 && y.lo.IsInt64() && y.lo.Int64() < int64(w) {
			s := uint(y.lo.Int64())
			h := new(big.Int).Lsh(x.hi, s)
			if h.Cmp(lim) < 0 {
				return ival{new(big.Int).Lsh(x.lo, s), h}
			}
		}
	}
	return full
}

// triOf: 1 = true for every value in the intervals, 2 = false for every value, 3 = undecided
func (a *absInt) triOf(t *Term) int8 {
	if t.Op == "const" {
		if t.Val.Sign() != 0 {
			return 1
		}
		return 2
	}
	if r, ok := a.tri[t]; ok {
		return r
	}
	r := a.tri1(t)
	a.tri[t] = r
	return r
}

func (a *absInt) tri1(t *Term) int8 {
	switch t.Op {
	case "not":
		switch a.triOf(t.Args[0]) {
		case 1:
			return 2
		case 2:
			return 1
		}
		return 3
	case "and":
		x, y := a.triOf(t.Args[0]), a.triOf(t.Args[1])
		if x == 2 || y == 2 {
			return 2
		}
		if x == 1 && y == 1 {
			return 1
		}
		return 3
	case "or":
		x, y := a.triOf(t.Args[0]), a.triOf(t.Args[1])
		if x == 1 || y == 1 {
			return 1
		}
		if x == 2 && y == 2 {
			return 2
		}
		return 3
	case "ite":
		if t.W != 0 {
			return 3
		}
		switch a.triOf(t.Args[0]) {
		case 1:
			return a.triOf(t.Args[1])
		case 2:
			return a.triOf(t.Args[2])
		}
		x, y := a.triOf(t.Args[1]), a.triOf(t.Args[2])
		if x == y {
			return x
		}
		return 3
	}
	if len(t.Args) != 2 || t.Args[0].W <= 0 || t.Args[0].W != t.Args[1].W {
		return 3
	}
	x, y := a.iv(t.Args[0]), a.iv(t.Args[1])
	op := t.Op
	switch op {
	case "bvslt", "bvsle", "bvsgt", "bvsge":
		half := pow2(t.Args[0].W - 1)
		if x.hi.Cmp(half) >= 0 || y.hi.Cmp(half) >= 0 {
			return 3
		}
		op = "bvu" + op[3:]
	}
	b := func(v bool) int8 {
		if v {
			return 1
		}
		return 2
	}
	switch op {
	case "=":
		if x.hi.Cmp(y.lo) < 0 || y.hi.Cmp(x.lo) < 0 {
			return 2
		}
		if x.lo.Cmp(x.hi) == 0 && y.lo.Cmp(y.hi) == 0 && x.lo.Cmp(y.lo) == 0 {
			return 1
		}
	case "bvult":
		if x.hi.Cmp(y.lo) < 0 {
			return 1
		}
		if x.lo.Cmp(y.hi) >= 0 {
			return 2
		}
	case "bvule":
		if x.hi.Cmp(y.lo) <= 0 {
			return 1
		}
		if x.lo.Cmp(y.hi) > 0 {
			return 2
		}
	case "bvugt":
		if x.lo.Cmp(y.hi) > 0 {
			return 1
		}
		if x.hi.Cmp(y.lo) <= 0 {
			return 2
		}
	case "bvuge":
		if x.lo.Cmp(y.hi) >= 0 {
			return 1
		}
		if x.hi.Cmp(y.lo) < 0 {
			return 2
		}
	}
	_ = b
	return 3
}

// learn tightens variable bounds from a condition that was added to the path condition.
func (a *absInt) learn(t *Term) {
	switch t.Op {
	case "and":
		a.learn(t.Args[0])
		a.learn(t.Args[1])
		return
	case "not":
		n := t.Args[0]
		if len(n.Args) == 2 {
			switch n.Op {
			case "bvult":
				a.learnCmp("bvuge", n.Args[0], n.Args[1])
			case "bvule":
				a.learnCmp("bvugt", n.Args[0], n.Args[1])
			case "bvugt":
				a.learnCmp("bvule", n.Args[0], n.Args[1])
			case "bvuge":
				a.learnCmp("bvult", n.Args[0], n.Args[1])
			case "bvslt":
				a.learnCmp("bvsge", n.Args[0], n.Args[1])
			case "bvsle":
				a.learnCmp("bvsgt", n.Args[0], n.Args[1])
			case "bvsgt":
				a.learnCmp("bvsle", n.Args[0], n.Args[1])
			case "bvsge":
				a.learnCmp("bvslt", n.Args[0], n.Args[1])
			}
		}
		return
	}
	if len(t.Args) == 2 && t.Args[0].W > 0 {
		a.learnCmp(t.Op, t.Args[0], t.Args[1])
	}
}

var mirrorCmp = map[string]string{"=": "=", "bvult": "bvugt", "bvule": "bvuge", "bvugt": "bvult", "bvuge": "bvule",
	"bvslt": "bvsgt", "bvsle": "bvsge", "bvsgt": "bvslt", "bvsge": "bvsle"}

func (a *absInt) learnCmp(op string, x, y *Term) {
	if _, ok := mirrorCmp[op]; !ok {
		return
	}
	if x.IsConst() && !y.IsConst() {
		x, y = y, x
		op = mirrorCmp[op]
	}
	if !y.IsConst() {
		return
	}
	v := x
	for v.Op == "zero_extend" {
		v = v.Args[0]
	}
	if v.Op != "var" || v.W <= 0 {
		return
	}
	c := y.Val
	vmax := mask(v.W)
	cur, ok := a.vb[v.Name]
	if !ok {
		cur = ival{bigZero, vmax}
	}
	lo, hi := cur.lo, cur.hi
	half := pow2(x.W - 1)
	switch op {
	case "=":
		if c.Cmp(vmax) <= 0 {
			lo, hi = maxBig(lo, c), minBig(hi, c)
		}
	case "bvule":
		hi = minBig(hi, c)
	case "bvult":
		if c.Sign() > 0 {
			hi = minBig(hi, new(big.Int).Sub(c, bigOne))
		}
	case "bvuge":
		lo = maxBig(lo, c)
	case "bvugt":
		lo = maxBig(lo, new(big.Int).Add(c, bigOne))
	case "bvsge", "bvsgt":
		// x >=s c with c non-negative: x is non-negative as well
		if c.Cmp(half) < 0 {
			if op == "bvsgt" {
				c = new(big.Int).Add(c, bigOne)
			}
			lo = maxBig(lo, c)
			hi = minBig(hi, new(big.Int).Sub(half, bigOne))
		}
	case "bvsle", "bvslt":
		// only informative once x is known to be non-negative
		if hi.Cmp(half) < 0 && c.Cmp(half) < 0 {
			if op == "bvslt" {
				if c.Sign() == 0 {
					return
				}
				c = new(big.Int).Sub(c, bigOne)
			}
			hi = minBig(hi, c)
		}
	}
	if lo.Cmp(hi) > 0 { // contradictory (infeasible path): leave the bounds alone, the solver will say so
		return
	}
	if lo.Cmp(cur.lo) != 0 || hi.Cmp(cur.hi) != 0 {
		a.vb[v.Name] = ival{lo, hi}
		a.memo = map[*Term]ival{}
		a.tri = map[*Term]int8{}
	}
}
