package main

import (
	"bufio"
	"fmt"
	"io"
	"math/big"
	"os/exec"
	"strings"
	"time"
)

type Solver struct {
	cmd     *exec.Cmd
	in      io.WriteCloser
	out     *bufio.Reader
	pr      *Printer
	Queries int
	Time    time.Duration
	Log     io.Writer
	timeout int // ms
	Restarts int
	UFMul   bool
}

func NewSolver(timeoutMs int) *Solver {
	cmd := exec.Command("z3-new", "-in")
	in, _ := cmd.StdinPipe()
	out, _ := cmd.StdoutPipe()
	cmd.Stderr = nil
	if err := cmd.Start(); err != nil {
		panic(err)
	}
	s := &Solver{cmd: cmd, in: in, out: bufio.NewReader(out), timeout: timeoutMs}
	s.Reset()
	return s
}

func (s *Solver) send(str string) {
	if s.Log != nil {
		io.WriteString(s.Log, str)
	}
	io.WriteString(s.in, str)
}

func (s *Solver) Reset() {
	s.pr = NewPrinter()
	s.pr.ufMul = s.UFMul
	s.send(fmt.Sprintf("(reset)\n(set-option :produce-models true)\n(set-option :timeout %d)\n", s.timeout))
}

func (s *Solver) flushDefs() {
	if s.pr.out.Len() > 0 {
		s.send(s.pr.out.String())
		s.pr.out.Reset()
	}
}

func (s *Solver) Assert(t *Term) {
	r := s.pr.ref(t)
	s.flushDefs()
	s.send("(assert " + r + ")\n")
}

type solverTimeout struct{}

func (s *Solver) readLine() string {
	type res struct {
		line string
		err  error
	}
	ch := make(chan res, 1)
	rd := s.out
	go func() {
		line, err := rd.ReadString('\n')
		ch <- res{line, err}
	}()
	select {
	case r := <-ch:
		if r.err != nil {
			panic("solver died: " + r.err.Error())
		}
		return strings.TrimSpace(r.line)
	case <-time.After(time.Duration(s.timeout)*time.Millisecond + 5*time.Second):
		s.cmd.Process.Kill()
		s.cmd.Wait()
		s.restart()
		s.Restarts++
		panic(solverTimeout{})
	}
}

func (s *Solver) restart() {
	cmd := exec.Command("z3-new", "-in")
	in, _ := cmd.StdinPipe()
	out, _ := cmd.StdoutPipe()
	if err := cmd.Start(); err != nil {
		panic(err)
	}
	s.cmd, s.in, s.out = cmd, in, bufio.NewReader(out)
	s.Reset()
}

// Check returns "sat","unsat","unknown"; extra is asserted only for this check.
func (s *Solver) Check(extra *Term) string {
	t0 := time.Now()
	defer func() { s.Time += time.Since(t0); s.Queries++ }()
	if extra != nil {
		r := s.pr.ref(extra)
		s.flushDefs()
		s.send("(push)\n(assert " + r + ")\n(check-sat)\n")
	} else {
		s.flushDefs()
		s.send("(check-sat)\n")
	}
	res := s.readLine()
	for strings.HasPrefix(res, "(error") {
		// inconclusive by policy
		res = "unknown"
	}
	return res
}

// CheckT is Check with a temporary (shorter) solver time-out.
func (s *Solver) CheckT(extra *Term, ms int) string {
	if ms >= s.timeout {
		return s.Check(extra)
	}
	s.send(fmt.Sprintf("(set-option :timeout %d)\n", ms))
	r := s.Check(extra)
	s.send(fmt.Sprintf("(set-option :timeout %d)\n", s.timeout))
	return r
}

// Model reads values for the given variables; must be called right after a sat Check (before Pop).
func (s *Solver) Model(vars []*Term) map[string]*big.Int {
	m := map[string]*big.Int{}
	for _, v := range vars {
		if !s.pr.vars[v.Name] {
			continue
		}
		s.send("(get-value (" + v.Name + "))\n")
		line := s.readLine()
		for strings.Count(line, "(") > strings.Count(line, ")") {
			line += " " + s.readLine()
		}
		// ((name #x..)) or ((name #b..)) or ((name 123)) or ((name (- 5))) or true/false
		line = strings.TrimSpace(line)
		line = strings.TrimPrefix(line, "((")
		line = strings.TrimSuffix(line, "))")
		idx := strings.Index(line, " ")
		val := strings.TrimSpace(line[idx+1:])
		z := new(big.Int)
		switch {
		case strings.HasPrefix(val, "#x"):
			z.SetString(val[2:], 16)
		case strings.HasPrefix(val, "#b"):
			z.SetString(val[2:], 2)
		case val == "true":
			z.SetInt64(1)
		case val == "false":
			z.SetInt64(0)
		case strings.HasPrefix(val, "(- "):
			z.SetString(strings.TrimSuffix(val[3:], ")"), 10)
			z.Neg(z)
		default:
			z.SetString(val, 10)
		}
		m[v.Name] = z
	}
	return m
}

func (s *Solver) Pop() { s.send("(pop)\n") }

func (s *Solver) Close() {
	s.in.Close()
	s.cmd.Wait()
}
