package txcache

import (
	"github.com/ElrondNetwork/elrond-go/data/transaction"
	"github.com/ElrondNetwork/elrond-go/process"
)


type verifGas struct{}

func (verifGas) SplitTxGasInCategories(tx process.TransactionWithFeeHandler) (uint64, uint64) {
	return 50000, 0
}
func (verifGas) GasPriceForProcessing(tx process.TransactionWithFeeHandler) uint64 { return 10 }
func (verifGas) GasPriceForMove(tx process.TransactionWithFeeHandler) uint64       { return 1000 }
func (verifGas) MinGasPrice() uint64                                              { return 1000 }
func (verifGas) MinGasLimit() uint64                                              { return 50000 }
func (verifGas) MinGasPriceForProcessing() uint64                                 { return 10 }
func (verifGas) IsInterfaceNil() bool                                             { return false }

type verifFee struct{}

func (verifFee) gasLimitShift() uint64     { return 5 }
func (verifFee) gasPriceShift() uint64     { return 3 }
func (verifFee) minPricePerUnit() uint64   { return 1 }
func (verifFee) normalizedMinFee() uint64  { return 1 }
func (verifFee) minGasPriceFactor() uint64 { return 1 }
func (verifFee) IsInterfaceNil() bool      { return false }

func Verif_C26_selectBatch() {
	list := newTxListForSender(".", &senderConstraints{maxNumTxs: 100, maxNumBytes: 100000}, func(*txListForSender, senderScoreParams) {})
	k := 1 + verifChoice("k", 3)
	for i := 0; i < k; i++ {
		n := verifU64("nonce")
		verifAssume(n < 1<<62)
		tx := &WrappedTransaction{Tx: &transaction.Transaction{Nonce: n, GasPrice: 1000, GasLimit: 50000}, TxHash: []byte{byte(i)}, Size: 100}
		list.AddTx(tx, verifGas{}, verifFee{})
	}
	accKnown := verifBool("accKnown")
	accNonce := verifU64("accNonce")
	if accKnown {
		// the account nonce may be notified more than once (it also goes down, after a rollback): the last one counts
		if verifBool("notifiedTwice") {
			list.notifyAccountNonce(verifU64("earlierAccNonce"))
		}
		list.notifyAccountNonce(accNonce)
	}
	dest := make([]*WrappedTransaction, 4)
	j := list.selectBatchTo(true, dest, 4)
	// sorted list as held by the sender list
	var all []uint64
	for e := list.items.Front(); e != nil; e = e.Next() {
		all = append(all, e.Value.(*WrappedTransaction).Tx.GetNonce())
	}
	verifAssert(j.copied <= len(all), "copied <= pooled")
	for i := 0; i < j.copied; i++ {
		verifAssert(dest[i].Tx.GetNonce() == all[i], "selected are the first ones of the sorted list")
		if i > 0 {
			verifAssert(dest[i].Tx.GetNonce() <= dest[i-1].Tx.GetNonce()+1, "no nonce skipped between consecutive selected")
		}
	}
	if accKnown && all[0] > accNonce {
		verifAssert(j.copied == 0, "initial gap: nothing selected (not in grace period)")
	}
	verifReach("end")
}
