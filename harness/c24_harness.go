package transaction

import (
	"bytes"
	"math/big"
)

// address encoder stub: injective (the real bech32 text form is injective by C48's regrouping half)
type verifC24Encoder struct{}

func (verifC24Encoder) Encode(buff []byte) string { return "erd:" + string(buff) }
func (verifC24Encoder) IsInterfaceNil() bool      { return false }

// marshalizer stub: captures the object that is about to be serialised for signing
type verifC24Marshalizer struct{ got *FrontendTransaction }

func (m *verifC24Marshalizer) Marshal(obj interface{}) ([]byte, error) {
	m.got = obj.(*FrontendTransaction)
	return []byte("captured"), nil
}
func (m *verifC24Marshalizer) Unmarshal(obj interface{}, buff []byte) error { return nil }
func (m *verifC24Marshalizer) IsInterfaceNil() bool                        { return m == nil }

func verifC24Tx(tag string) *Transaction {
	v := verifBig(tag + "value")
	verifAssume(v.Sign() >= 0 && v.Cmp(bigThousand) < 0)
	return &Transaction{
		Nonce: verifU64(tag + "nonce"), Value: v, RcvAddr: verifBytes(tag+"rcv", 2), SndAddr: verifBytes(tag+"snd", 2),
		RcvUserName: verifBytes(tag+"rcvName", 1), SndUserName: verifBytes(tag+"sndName", 1),
		GasPrice: verifU64(tag + "gasPrice"), GasLimit: verifU64(tag + "gasLimit"), Data: verifBytes(tag+"data", 2),
		ChainID: verifBytes(tag+"chain", 1), Version: verifU32(tag + "version"), Options: verifU32(tag + "options"),
		Signature: verifBytes(tag+"sig", 2),
	}
}

var bigThousand = big.NewInt(1000)

func verifSameSemantic(a, b *Transaction) bool {
	return a.Nonce == b.Nonce && a.Value.Cmp(b.Value) == 0 && bytes.Equal(a.RcvAddr, b.RcvAddr) && bytes.Equal(a.SndAddr, b.SndAddr) &&
		bytes.Equal(a.RcvUserName, b.RcvUserName) && bytes.Equal(a.SndUserName, b.SndUserName) && a.GasPrice == b.GasPrice && a.GasLimit == b.GasLimit &&
		bytes.Equal(a.Data, b.Data) && bytes.Equal(a.ChainID, b.ChainID) && a.Version == b.Version && a.Options == b.Options
}

func verifSameDTO(a, b *FrontendTransaction) bool {
	return a.Nonce == b.Nonce && a.Value == b.Value && a.Receiver == b.Receiver && a.Sender == b.Sender &&
		bytes.Equal(a.SenderUsername, b.SenderUsername) && bytes.Equal(a.ReceiverUsername, b.ReceiverUsername) && a.GasPrice == b.GasPrice &&
		a.GasLimit == b.GasLimit && bytes.Equal(a.Data, b.Data) && a.Signature == b.Signature && a.ChainID == b.ChainID && a.Version == b.Version && a.Options == b.Options
}

// Two transactions with every field symbolic: the data handed to the signer (the FrontendTransaction
// built by the real GetDataForSigning) differs whenever a semantic field differs, is identical for
// identical fields, and does not depend on the signature field.
func Verif_C24_signedFields() {
	verifFmtExact(true) // Value.String() is part of the signed data
	t1, t2 := verifC24Tx("a"), verifC24Tx("b")
	m1, m2 := &verifC24Marshalizer{}, &verifC24Marshalizer{}
	_, err1 := t1.GetDataForSigning(verifC24Encoder{}, m1)
	_, err2 := t2.GetDataForSigning(verifC24Encoder{}, m2)
	verifAssert(err1 == nil && err2 == nil && m1.got != nil && m2.got != nil, "data for signing produced")
	same := verifSameSemantic(t1, t2)
	dto := verifSameDTO(m1.got, m2.got)
	if same {
		verifAssert(dto, "identical field values give identical signed data (the signature field is not part of it)")
	} else {
		verifAssert(!dto, "a difference in any semantic field changes the signed data")
	}
	verifAssert(m1.got.Signature == "", "the signature field is empty in the signed data")
	verifReach("end")
}
