package transaction

import (
	"bytes"
	"math/big"

	"github.com/ElrondNetwork/elrond-go/marshal"
)

// address encoder stub: injective (the real bech32 text form is injective by C48's regrouping half)
type verifC24Encoder struct{}

func (verifC24Encoder) Encode(buff []byte) string { return "erd:" + string(buff) }
func (verifC24Encoder) IsInterfaceNil() bool      { return false }

// marshalizer stub: captures the object that is about to be serialised for signing
type verifC24Marshalizer struct{ got *FrontendTransaction }

func (m *verifC24Marshalizer) Marshal(obj interface{}) ([]byte, error) {
	m.got = obj.(*FrontendTransaction)
	return []byte("captured"), nil
}
func (m *verifC24Marshalizer) Unmarshal(obj interface{}, buff []byte) error { return nil }
func (m *verifC24Marshalizer) IsInterfaceNil() bool                         { return m == nil }

func verifC24Tx(tag string) *Transaction {
	v := verifBig(tag + "value")
	verifAssume(v.Sign() >= 0 && v.Cmp(bigThousand) < 0)
	return &Transaction{
		Nonce: verifU64(tag + "nonce"), Value: v, RcvAddr: verifBytes(tag+"rcv", 2), SndAddr: verifBytes(tag+"snd", 2),
		RcvUserName: verifBytes(tag+"rcvName", 1), SndUserName: verifBytes(tag+"sndName", 1),
		GasPrice: verifU64(tag + "gasPrice"), GasLimit: verifU64(tag + "gasLimit"), Data: verifBytes(tag+"data", 2),
		ChainID: verifBytes(tag+"chain", 1), Version: verifU32(tag + "version"), Options: verifU32(tag + "options"),
		Signature: verifBytes(tag+"sig", 2),
	}
}

var bigThousand = big.NewInt(1000)

func verifSameSemantic(a, b *Transaction) bool {
	return a.Nonce == b.Nonce && a.Value.Cmp(b.Value) == 0 && bytes.Equal(a.RcvAddr, b.RcvAddr) && bytes.Equal(a.SndAddr, b.SndAddr) &&
		bytes.Equal(a.RcvUserName, b.RcvUserName) && bytes.Equal(a.SndUserName, b.SndUserName) && a.GasPrice == b.GasPrice && a.GasLimit == b.GasLimit &&
		bytes.Equal(a.Data, b.Data) && bytes.Equal(a.ChainID, b.ChainID) && a.Version == b.Version && a.Options == b.Options
}

func verifSameDTO(a, b *FrontendTransaction) bool {
	return a.Nonce == b.Nonce && a.Value == b.Value && a.Receiver == b.Receiver && a.Sender == b.Sender &&
		bytes.Equal(a.SenderUsername, b.SenderUsername) && bytes.Equal(a.ReceiverUsername, b.ReceiverUsername) && a.GasPrice == b.GasPrice &&
		a.GasLimit == b.GasLimit && bytes.Equal(a.Data, b.Data) && a.Signature == b.Signature && a.ChainID == b.ChainID && a.Version == b.Version && a.Options == b.Options
}

// Two transactions with every field symbolic: the data handed to the signer (the FrontendTransaction
// built by the real GetDataForSigning) differs whenever a semantic field differs, is identical for
// identical fields, and does not depend on the signature field.
func Verif_C24_signedFields() {
	verifFmtExact(true) // Value.String() is part of the signed data
	t1, t2 := verifC24Tx("a"), verifC24Tx("b")
	m1, m2 := &verifC24Marshalizer{}, &verifC24Marshalizer{}
	_, err1 := t1.GetDataForSigning(verifC24Encoder{}, m1)
	_, err2 := t2.GetDataForSigning(verifC24Encoder{}, m2)
	verifAssert(err1 == nil && err2 == nil && m1.got != nil && m2.got != nil, "data for signing produced")
	same := verifSameSemantic(t1, t2)
	dto := verifSameDTO(m1.got, m2.got)
	if same {
		verifAssert(dto, "identical field values give identical signed data (the signature field is not part of it)")
	} else {
		verifAssert(!dto, "a difference in any semantic field changes the signed data")
	}
	verifAssert(m1.got.Signature == "", "the signature field is empty in the signed data")
	verifReach("end")
}

// ---- the serialised bytes themselves (real TxJsonMarshalizer over the engine's model of json.Encoder) ----

// injective ASCII address encoder (two letters per byte), standing in for bech32 (C48)
type verifC24AsciiEncoder struct{}

func (verifC24AsciiEncoder) Encode(buff []byte) string {
	out := make([]byte, 0, 2*len(buff))
	for _, c := range buff {
		out = append(out, 'a'+c>>4, 'a'+c&15)
	}
	return string(out)
}
func (verifC24AsciiEncoder) IsInterfaceNil() bool { return false }

func verifDigit(name string) uint64 {
	v := verifU8(name)
	verifAssume(v >= 1 && v <= 9)
	return uint64(v)
}

// chain id bytes: letters and digits as on the real networks, a character JSON has to escape, and bytes
// that are not valid UTF-8
func verifChainByte(name string) byte {
	c := verifU8(name)
	verifAssume(c == '1' || c == 'T' || c == '"' || c == 0xfe || c == 0xff)
	return c
}

// Signing bytes of two transactions that differ in at most one field (every field in turn, the new value
// symbolic): the bytes differ exactly when the field value differs, and the bytes obtained for the first
// transaction are still the same after the second one was serialised.
func Verif_C24_signingBytes() {
	verifFmtExact(true)
	t1 := &Transaction{Nonce: verifDigit("nonce"), Value: big.NewInt(int64(verifDigit("value"))), RcvAddr: verifBytes("rcv", 1), SndAddr: verifBytes("snd", 1),
		RcvUserName: verifBytes("rcvName", 1), SndUserName: verifBytes("sndName", 1), GasPrice: verifDigit("gasPrice"), GasLimit: verifDigit("gasLimit"),
		Data: verifBytes("data", 1), ChainID: []byte{verifChainByte("chain")}, Version: uint32(verifDigit("version")), Options: uint32(verifU8("options") & 7), Signature: []byte("sig1")}
	t2 := *t1
	t2.Signature = []byte("sig2")
	small := func(name string) uint64 {
		v := verifU8(name)
		verifAssume(v <= 99)
		return uint64(v)
	}
	switch verifChoice("field", 12) {
	case 0:
		t2.Nonce = small("nonce2")
	case 1:
		t2.Value = big.NewInt(int64(small("value2")))
	case 2:
		t2.RcvAddr = verifBytes("rcv2", 1+verifChoice("rcvLen2", 2))
	case 3:
		t2.SndAddr = verifBytes("snd2", 1)
	case 4:
		t2.RcvUserName = verifBytes("rcvName2", verifChoice("rcvNameLen2", 3))
	case 5:
		t2.SndUserName = verifBytes("sndName2", 1)
	case 6:
		t2.GasPrice = small("gasPrice2")
	case 7:
		t2.GasLimit = small("gasLimit2")
	case 8:
		t2.Data = verifBytes("data2", verifChoice("dataLen2", 4))
	case 9:
		t2.ChainID = []byte{verifChainByte("chain2")}
	case 10:
		t2.Version = uint32(small("version2"))
	case 11:
		t2.Options = uint32(small("options2"))
	}
	// known finding: a chain id that is not valid UTF-8 is replaced by U+FFFD in the JSON text, so two
	// different invalid chain ids give the same signing bytes
	verifKnown("C24-invalid-utf8-chain-id", t1.ChainID[0] >= 0x80 && t2.ChainID[0] >= 0x80 && t1.ChainID[0] != t2.ChainID[0])
	m := &marshal.TxJsonMarshalizer{}
	b1, err1 := t1.GetDataForSigning(verifC24AsciiEncoder{}, m)
	held := append([]byte{}, b1...) // what the signer saw
	b2, err2 := t2.GetDataForSigning(verifC24AsciiEncoder{}, m)
	verifAssert(err1 == nil && err2 == nil, "signing bytes produced")
	verifAssert(bytes.Equal(b1, held), "the bytes handed out for one transaction do not change when another one is serialised")
	b1again, _ := t1.GetDataForSigning(verifC24AsciiEncoder{}, m)
	verifAssert(bytes.Equal(b1again, held), "identical field values give identical bytes")
	if verifSameSemantic(t1, &t2) {
		verifAssert(bytes.Equal(b1, b2), "the signature field is not part of the signed bytes")
	} else {
		verifAssert(!bytes.Equal(held, b2), "a difference in any semantic field changes the signed bytes")
	}
	verifReach("end")
}

// Validation of the json.Encoder model: a concrete transaction with characters that need escaping, invalid
// UTF-8, a line separator, base64 padding and omitted fields. The expected text was produced by the real
// encoder; the native replay of this harness checks it against the real encoder again, the engine checks
// its model against it.
func Verif_C24_jsonModelMatchesRealEncoder() {
	tx := &Transaction{Nonce: 1234567890123, Value: big.NewInt(1000000007), RcvAddr: []byte{0x00, 0xff, 0x10}, SndAddr: []byte{0x7f},
		RcvUserName: []byte("a<b>&\"c\\"), SndUserName: nil, GasPrice: 1000000000, GasLimit: 50000, Data: []byte{0, 1, 2, 250, 251, 252, 253},
		ChainID: []byte("T\"<\n\x01\xc3\xa9\xfe\xe2\x80\xa8z"), Version: 1, Options: 0, Signature: []byte("s")}
	b, err := tx.GetDataForSigning(verifC24AsciiEncoder{}, &marshal.TxJsonMarshalizer{})
	verifAssert(err == nil, "signing bytes produced")
	verifAssert(string(b) == "{\"nonce\":1234567890123,\"value\":\"1000000007\",\"receiver\":\"aappba\",\"sender\":\"hp\",\"receiverUsername\":\"YTxiPiYiY1w=\",\"gasPrice\":1000000000,\"gasLimit\":50000,\"data\":\"AAEC+vv8/Q==\",\"chainID\":\"T\\\"<\\n\\u0001é\\ufffd\\u2028z\",\"version\":1}",
		"the serialised text is what the real encoder produces")
	verifReach("end")
}
