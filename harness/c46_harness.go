package dblookupext

import (
	"errors"

	"github.com/ElrondNetwork/elrond-go/core/container"
	"github.com/ElrondNetwork/elrond-go/data"
	"github.com/ElrondNetwork/elrond-go/data/block"
	"github.com/ElrondNetwork/elrond-go/hashing/blake2b"
	"github.com/ElrondNetwork/elrond-go/marshal"
	"github.com/ElrondNetwork/elrond-go/storage"
)

// memory storer: one map per epoch plus a flat map for plain Put/Get
type verifStorer struct {
	storage.Storer
	flat    map[string][]byte
	byEpoch map[uint32]map[string][]byte
}

func newVerifStorer() *verifStorer {
	return &verifStorer{flat: map[string][]byte{}, byEpoch: map[uint32]map[string][]byte{}}
}
func (s *verifStorer) Put(key, data []byte) error { s.flat[string(key)] = data; return nil }
func (s *verifStorer) Get(key []byte) ([]byte, error) {
	v, ok := s.flat[string(key)]
	if !ok {
		return nil, errors.New("not found")
	}
	return v, nil
}
func (s *verifStorer) PutInEpoch(key, data []byte, epoch uint32) error {
	if s.byEpoch[epoch] == nil {
		s.byEpoch[epoch] = map[string][]byte{}
	}
	s.byEpoch[epoch][string(key)] = data
	return nil
}
func (s *verifStorer) GetFromEpoch(key []byte, epoch uint32) ([]byte, error) {
	v, ok := s.byEpoch[epoch][string(key)]
	if !ok {
		return nil, errors.New("not found")
	}
	return v, nil
}
func (s *verifStorer) IsInterfaceNil() bool { return s == nil }

type verifMapCache struct {
	storage.Cacher
	m map[string]bool
}

func (c *verifMapCache) Has(key []byte) bool                                          { return c.m[string(key)] }
func (c *verifMapCache) Put(key []byte, value interface{}, sizeInBytes int) bool      { c.m[string(key)] = true; return false }
func (c *verifMapCache) IsInterfaceNil() bool                                         { return c == nil }

func verifNewHistoryRepo() *historyRepository {
	m := &marshal.GogoProtoMarshalizer{}
	return &historyRepository{
		selfShardID: 0, miniblocksMetadataStorer: newVerifStorer(), marshalizer: m, hasher: blake2b.NewBlake2b(),
		epochByHashIndex: newHashToEpochIndex(newVerifStorer(), m), miniblockHashByTxHashIndex: newVerifStorer(),
		pendingNotarizedAtSourceNotifications: container.NewMutexMap(), pendingNotarizedAtDestinationNotifications: container.NewMutexMap(),
		pendingNotarizedAtBothNotifications: container.NewMutexMap(), deduplicationCacheForInsertMiniblockMetadata: &verifMapCache{m: map[string]bool{}},
		eventsHashesByTxHashIndex: newEventsHashesByTxHash(newVerifStorer(), m),
	}
}

// Events in every order: the miniblock recorded in block B1, recorded again in a competing block B2
// (same or next epoch), and the notification that a meta block notarized it.
func Verif_C46_canonicalBlock() {
	hr := verifNewHistoryRepo()
	tx := []byte("txhash")
	mb := &block.MiniBlock{TxHashes: [][]byte{tx}, SenderShardID: 0, ReceiverShardID: 1, Type: block.TxBlock}
	mbHash, _ := hr.computeMiniblockHash(mb)
	body := &block.Body{MiniBlocks: []*block.MiniBlock{mb}}
	h1, h2 := []byte("header-hash-1"), []byte("header-hash-2")
	epoch2 := uint32(verifChoice("epochOfSecondBlock", 2)) // same epoch as the first block, or the next one
	meta := &block.MetaBlock{Nonce: 7, ShardInfo: []block.ShardData{{ShardID: 0, ShardMiniBlockHeaders: []block.MiniBlockHeader{{Hash: mbHash, SenderShardID: 0, ReceiverShardID: 1}}}}}
	metaHash := []byte("meta-hash")

	var lastHeader []byte
	notified := false
	n := verifParam("events")
	for i := 0; i < n; i++ {
		switch verifChoice("event", 3) {
		case 0:
			verifAssert(hr.RecordBlock(h1, &block.Header{Nonce: 10, Round: 20, Epoch: 0}, body, nil, nil) == nil, "record B1")
			lastHeader = h1
		case 1:
			verifAssert(hr.RecordBlock(h2, &block.Header{Nonce: 10, Round: 21, Epoch: epoch2}, body, nil, nil) == nil, "record B2")
			lastHeader = h2
		case 2:
			hr.OnNotarizedBlocks(0, []data.HeaderHandler{meta}, [][]byte{metaHash})
			notified = true
		}
		md, err := hr.GetMiniblockMetadataByTxHash(tx)
		if lastHeader == nil {
			verifAssert(err != nil, "unknown transaction before any block is recorded")
			continue
		}
		verifAssert(err == nil && md != nil, "metadata found for a recorded transaction")
		if err == nil {
			verifAssert(string(md.HeaderHash) == string(lastHeader), "lookup reports the most recently recorded block containing the miniblock")
			if notified {
				// pending notifications are applied when the next batch of notarized blocks is processed: let one
				// (empty) batch pass, as it does with every new meta block
				hr.OnNotarizedBlocks(0, nil, nil)
				md, err = hr.GetMiniblockMetadataByTxHash(tx)
				verifAssert(err == nil && md != nil, "metadata still found")
				verifAssert(string(md.HeaderHash) == string(lastHeader), "lookup still reports the most recently recorded block")
				verifAssert(md.NotarizedAtSourceInMetaNonce == 7 && string(md.NotarizedAtSourceInMetaHash) == string(metaHash), "notarization data reported once the notarizing meta block was seen")
			}
		}
	}
	verifReach("end")
}
