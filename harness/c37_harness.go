package rating

import (
	"github.com/ElrondNetwork/elrond-go/core"
	"github.com/ElrondNetwork/elrond-go/process"
)

type verifSteps struct {
	pi, pd, vi, vd int32
	penalty        float32
}

func (s *verifSteps) ProposerIncreaseRatingStep() int32        { return s.pi }
func (s *verifSteps) ProposerDecreaseRatingStep() int32        { return s.pd }
func (s *verifSteps) ValidatorIncreaseRatingStep() int32       { return s.vi }
func (s *verifSteps) ValidatorDecreaseRatingStep() int32       { return s.vd }
func (s *verifSteps) ConsecutiveMissedBlocksPenalty() float32 { return s.penalty }

// penalties are configuration floats: enumerated
var verifPenalties = []float32{1, 1.1, 1.5, 2}

func verifStepHandler(tag string) *verifSteps {
	s := &verifSteps{pi: verifI32(tag + "pi"), pd: verifI32(tag + "pd"), vi: verifI32(tag + "vi"), vd: verifI32(tag + "vd")}
	// what the ratings configuration validation guarantees
	verifAssume(s.pi >= 1 && s.vi >= 1 && s.pd <= -1 && s.vd <= -1)
	s.penalty = verifPenalties[verifParam("penalty")]
	return s
}

func verifRater() *BlockSigningRater {
	bsr := &BlockSigningRater{minRating: verifU32("min"), maxRating: verifU32("max"), startRating: verifU32("start")}
	verifAssume(bsr.minRating >= 1 && bsr.minRating <= bsr.startRating && bsr.startRating <= bsr.maxRating)
	bsr.shardRatingsStepHandler = verifStepHandler("s")
	bsr.metaRatingsStepHandler = verifStepHandler("m")
	return bsr
}

func Verif_C37_updates() {
	bsr := verifRater()
	r := verifU32("rating")
	verifAssume(r >= bsr.minRating && r <= bsr.maxRating)
	shard := uint32(0)
	if verifBool("meta") {
		shard = core.MetachainShardId
	}
	inRange := func(x uint32) bool { return x >= bsr.minRating && x <= bsr.maxRating }
	switch verifChoice("op", 6) {
	case 0:
		n := bsr.ComputeIncreaseProposer(shard, r)
		verifAssert(inRange(n), "increase proposer stays in range")
		verifAssert(n >= r, "increase proposer never lowers")
	case 1:
		n := bsr.ComputeIncreaseValidator(shard, r)
		verifAssert(inRange(n), "increase validator stays in range")
		verifAssert(n >= r, "increase validator never lowers")
	case 2:
		n := bsr.ComputeDecreaseValidator(shard, r)
		verifAssert(inRange(n), "decrease validator stays in range")
		verifAssert(n <= r, "decrease validator never raises")
	case 3:
		// enumerated (the product step x nrReverts stays linear for the solver)
		ks := []uint32{0, 1, 2, 3, 1000, 1 << 31, 4294967295}
		k := ks[verifChoice("nrReverts", len(ks))]
		n := bsr.RevertIncreaseValidator(shard, r, k)
		verifAssert(inRange(n), "revert increase stays in range")
		verifAssert(n <= r, "revert increase never raises")
	case 4:
		misses := uint32(verifChoice("misses", verifParam("maxMisses")+1))
		// the proposer decrease step feeds a float loop: enumerated, so the floats stay concrete
		pds := []int32{-1, -2, -7, -1000, -1 << 30, -2147483648}
		pd := pds[verifChoice("pdStep", len(pds))]
		bsr.shardRatingsStepHandler.(*verifSteps).pd = pd
		bsr.metaRatingsStepHandler.(*verifSteps).pd = pd
		n := bsr.ComputeDecreaseProposer(shard, r, misses)
		verifAssert(inRange(n), "decrease proposer stays in range")
		verifAssert(n <= r, "decrease proposer never raises")
		n2 := bsr.ComputeDecreaseProposer(shard, r, misses+1)
		verifAssert(n2 <= n, "a longer streak of misses never yields a higher rating")
	case 5:
		// start rating is a valid rating
		verifAssert(inRange(bsr.GetStartRating()), "start rating in range")
	}
	verifReach("end")
}

type verifSelChance struct{ thr, pct uint32 }

func (c *verifSelChance) GetMaxThreshold() uint32  { return c.thr }
func (c *verifSelChance) GetChancePercent() uint32 { return c.pct }

type verifRatingsInfo struct {
	min, max, start uint32
	steps           *verifSteps
	chances         []process.SelectionChance
}

func (r *verifRatingsInfo) StartRating() uint32                                   { return r.start }
func (r *verifRatingsInfo) MaxRating() uint32                                     { return r.max }
func (r *verifRatingsInfo) MinRating() uint32                                     { return r.min }
func (r *verifRatingsInfo) SignedBlocksThreshold() float32                        { return 0.5 }
func (r *verifRatingsInfo) MetaChainRatingsStepHandler() process.RatingsStepHandler  { return r.steps }
func (r *verifRatingsInfo) ShardChainRatingsStepHandler() process.RatingsStepHandler { return r.steps }
func (r *verifRatingsInfo) SelectionChances() []process.SelectionChance           { return r.chances }
func (r *verifRatingsInfo) IsInterfaceNil() bool                                  { return r == nil }

// selection chance through the real constructor: three bands (thresholds 0 < t1 < t2 = max) listed in any
// order in the configuration; the chance of a rating is that of the first band whose threshold is >= rating
func Verif_C37_chance() {
	t1, t2 := verifU32("t1"), verifU32("t2")
	verifAssume(0 < t1 && t1 < t2)
	bands := []*verifSelChance{{0, verifU32("c0")}, {t1, verifU32("c1")}, {t2, verifU32("c2")}}
	perms := [][3]int{{0, 1, 2}, {0, 2, 1}, {1, 0, 2}, {1, 2, 0}, {2, 0, 1}, {2, 1, 0}}
	p := perms[verifChoice("listingOrder", len(perms))]
	info := &verifRatingsInfo{min: 1, max: t2, start: t2, steps: &verifSteps{pi: 1, vi: 1, pd: -1, vd: -1, penalty: 1}}
	for _, i := range p {
		info.chances = append(info.chances, process.SelectionChance(bands[i]))
	}
	bsr, err := NewBlockSigningRater(info)
	verifAssert(err == nil && bsr != nil, "valid ratings configuration accepted")
	r := verifU32("rating")
	verifAssume(r <= t2)
	got := bsr.GetChance(r)
	switch {
	case r == 0:
		verifAssert(got == bands[0].pct, "band 0")
	case r <= t1:
		verifAssert(got == bands[1].pct, "band 1")
	default:
		verifAssert(got == bands[2].pct, "band 2")
	}
	verifReach("end")
}
