package txcache

import (
	"github.com/ElrondNetwork/elrond-go/data/transaction"
)

// in-package traversal of both indexes
func verifC25Check(cache *TxCache, step string) {
	// every tx of every sender list is found by hash, lists are ordered, no duplicates
	inLists := 0
	bytesInLists := int64(0)
	senders := 0
	for _, skey := range cache.txListBySender.backingMap.Keys() {
		item, _ := cache.txListBySender.backingMap.Get(skey)
		l := item.(*txListForSender)
		senders++
		var prev *WrappedTransaction
		n := 0
		listBytes := int64(0)
		for e := l.items.Front(); e != nil; e = e.Next() {
			tx := e.Value.(*WrappedTransaction)
			n++
			listBytes += tx.Size
			got, ok := cache.txByHash.getTx(string(tx.TxHash))
			verifAssert(ok && got == tx, "a transaction held in a sender list is found by hash")
			verifAssert(string(tx.Tx.GetSndAddr()) == l.sender, "a transaction is held in the list of its sender")
			if prev != nil {
				pn, cn := prev.Tx.GetNonce(), tx.Tx.GetNonce()
				verifAssert(pn <= cn, "sender list ordered by nonce")
				if pn == cn {
					verifAssert(prev.Tx.GetGasPrice() >= tx.Tx.GetGasPrice(), "equal nonces ordered by gas price, higher first")
				}
				verifAssert(string(prev.TxHash) != string(tx.TxHash), "no duplicate in a sender list")
			}
			prev = tx
		}
		verifAssert(n > 0, "no empty sender list is kept")
		verifAssert(int64(l.totalBytes.Get()) == listBytes, "per-sender byte counter matches the list")
		inLists += n
		bytesInLists += listBytes
	}
	// every sender is also in the score-sorted view exactly once
	verifAssert(int(cache.txListBySender.backingMap.CountSorted()) == senders, "every sender is in the score-sorted view")
	// and the other way round: the by-hash index holds nothing else
	byHash := len(cache.txByHash.backingMap.Keys())
	verifAssert(byHash == inLists, "the transactions found by hash are exactly those of the sender lists")
	verifAssert(int(cache.txByHash.counter.Get()) == byHash, "transaction counter matches the contents")
	verifAssert(cache.txByHash.numBytes.Get() == bytesInLists, "byte counter matches the contents")
	verifAssert(int(cache.txListBySender.counter.Get()) == senders, "sender counter matches the contents")
}

func Verif_C25_sequence() {
	cfg := ConfigSourceMe{Name: "x", NumChunks: 1, EvictionEnabled: true, NumBytesThreshold: 1000, NumBytesPerSenderThreshold: 250,
		CountThreshold: 4, CountPerSenderThreshold: 2, NumSendersToPreemptivelyEvict: 1}
	cache, err := NewTxCache(cfg, verifGas{})
	verifAssert(err == nil, "cache created")
	senders := []string{"alice", "bob", "carol"}
	var added []*WrappedTransaction
	// prefill: additions with symbolic nonces that bring the pool to its thresholds, so that the following
	// symbolic steps exercise sender limits and eviction
	pre := verifParam("prefill")
	for i := 0; i < pre; i++ {
		nonce := verifU64("prenonce")
		verifAssume(nonce < 3)
		tx := &WrappedTransaction{Tx: &transaction.Transaction{Nonce: nonce, GasPrice: 1000, GasLimit: 50000, SndAddr: []byte(senders[i%len(senders)])}, TxHash: []byte{'p', byte('0' + i)}, Size: 100}
		cache.AddTx(tx)
		added = append(added, tx)
		verifC25Check(cache, "prefill")
	}
	steps := verifParam("steps")
	for s := 0; s < steps; s++ {
		switch verifChoice("op", 4) {
		case 0: // add
			snd := senders[verifChoice("sender", len(senders))]
			nonce := verifU64("nonce")
			verifAssume(nonce < 4)
			price := uint64(1000 + 1000*verifChoice("price", 2))
			tx := &WrappedTransaction{Tx: &transaction.Transaction{Nonce: nonce, GasPrice: price, GasLimit: 50000, SndAddr: []byte(snd)}, TxHash: []byte{'h', byte('0' + s)}, Size: 100}
			cache.AddTx(tx)
			added = append(added, tx)
			// sender limits hold right after an addition
			if l, ok := cache.txListBySender.getListForSender(snd); ok {
				verifAssert(l.items.Len() <= int(cfg.CountPerSenderThreshold), "sender count limit holds after an addition")
				verifAssert(l.totalBytes.Get() <= int64(cfg.NumBytesPerSenderThreshold), "sender byte limit holds after an addition")
			}
		case 1: // remove one of the transactions added before (possibly already gone)
			if len(added) > 0 {
				cache.RemoveTxByHash(added[verifChoice("which", len(added))].TxHash)
			}
		case 2:
			sel := cache.doSelectTransactions(3, 2)
			for i, a := range sel {
				for j := 0; j < i; j++ {
					verifAssert(sel[j] != a, "selection returns distinct transactions")
				}
				_, ok := cache.txByHash.getTx(string(a.TxHash))
				verifAssert(ok, "selected transactions are pooled")
			}
		case 3:
			cache.NotifyAccountNonce([]byte(senders[verifChoice("nsender", len(senders))]), uint64(verifChoice("accNonce", 3)))
		}
		verifC25Check(cache, "step")
	}
	verifReach("end")
}
