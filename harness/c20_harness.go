package sync

import (
	"math"
	"time"

	"github.com/ElrondNetwork/elrond-go/process"
)

type verifRound struct{ idx int64 }

func (r verifRound) Index() int64                                                      { return r.idx }
func (r verifRound) BeforeGenesis() bool                                               { return false }
func (r verifRound) UpdateRound(time.Time, time.Time)                                  {}
func (r verifRound) TimeStamp() time.Time                                              { return time.Time{} }
func (r verifRound) TimeDuration() time.Duration                                       { return 0 }
func (r verifRound) RemainingTime(startTime time.Time, maxTime time.Duration) time.Duration { return 0 }
func (r verifRound) IsInterfaceNil() bool                                              { return false }

func verifC20Detector(final *checkpointInfo, highest uint64) *baseForkDetector {
	bfd := &baseForkDetector{roundHandler: verifRound{100}, headers: map[uint64][]*headerInfo{}}
	bfd.fork.finalCheckpoint = final
	bfd.fork.checkpoint = []*checkpointInfo{final}
	bfd.fork.rollBackNonce = math.MaxUint64     // no roll back requested
	bfd.fork.lastRoundWithForcedFork = 100     // consensus is not stuck
	bfd.fork.highestNonceReceived = highest
	return bfd
}

// Competing headers for two nonces: rounds, epochs, states and hashes symbolic. The detector is run on
// the same set of header infos stored in two different orders (per-nonce list permuted, map filled in
// the opposite order).
func Verif_C20_forkChoice() {
	k := verifParam("perNonce")
	nonces := []uint64{5, 6}
	finalNonce := verifU64("finalNonce")
	verifAssume(finalNonce >= 3 && finalNonce <= 7)
	highest := verifU64("highestNonceReceived")
	verifAssume(highest >= 4 && highest <= 8)
	final := &checkpointInfo{nonce: finalNonce, round: 1}
	infos := map[uint64][]*headerInfo{}
	for ni, n := range nonces {
		processed := 0
		if ni == 1 {
			// the second nonce carries a fixed pair of competing headers (it only varies the map order)
			infos[n] = []*headerInfo{{nonce: n, epoch: 0, round: 2, hash: []byte{'a'}, state: process.BHProcessed}, {nonce: n, epoch: 0, round: 1, hash: []byte{'b'}, state: process.BHReceived}}
			continue
		}
		for i := 0; i < k; i++ {
			hi := &headerInfo{nonce: n, epoch: uint32(verifU8("epoch") & 1), round: uint64(verifU8("round") & 3), hash: verifBytes("hash", 1), state: process.BlockHeaderState(verifU8("state"))}
			verifAssume(hi.state <= process.BHNotarized)
			if hi.state == process.BHProcessed {
				processed++
			}
			// what append() guarantees: no two infos with the same hash and state
			for _, o := range infos[n] {
				verifAssume(!(o.hash[0] == hi.hash[0] && o.state == hi.state))
			}
			infos[n] = append(infos[n], hi)
		}
		verifAssume(processed <= 1) // a node has processed at most one block per nonce
	}
	d1 := verifC20Detector(final, highest)
	for _, n := range nonces {
		d1.headers[n] = append([]*headerInfo{}, infos[n]...)
	}
	d2 := verifC20Detector(final, highest)
	for i := len(nonces) - 1; i >= 0; i-- {
		n := nonces[i]
		k := len(infos[n])
		rot := verifChoice("rotation", k)
		rev := verifBool("reversed")
		l := make([]*headerInfo, k)
		for j := 0; j < k; j++ {
			src := (j + rot) % k
			if rev {
				src = (k - 1 - j + rot) % k
			}
			l[j] = infos[n][src]
		}
		d2.headers[n] = l
	}
	f1 := d1.CheckFork()
	f2 := d2.CheckFork()
	if f1.IsDetected {
		verifAssert(f1.Nonce > finalNonce, "no fork reported at or below the highest final nonce")
	}
	verifAssert(f1.IsDetected == f2.IsDetected, "detection does not depend on the order of the received headers")
	if f1.IsDetected && f2.IsDetected {
		verifAssert(f1.Nonce == f2.Nonce && f1.Round == f2.Round, "selected fork nonce and round do not depend on the order")
		same := len(f1.Hash) == len(f2.Hash)
		if same && len(f1.Hash) == 1 {
			same = f1.Hash[0] == f2.Hash[0]
		}
		verifAssert(same, "selected fork hash does not depend on the order")
	}
	verifReach("end")
}
