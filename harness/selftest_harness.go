package factory

import (
	"encoding/binary"
	"encoding/hex"
	"math/big"
	"sort"
	"strconv"
	"strings"

	"github.com/ElrondNetwork/elrond-go/core"
	"github.com/ElrondNetwork/elrond-go/core/pubkeyConverter"
	"github.com/ElrondNetwork/elrond-go/data/block"
	"github.com/ElrondNetwork/elrond-go/data/transaction"
	"github.com/ElrondNetwork/elrond-go/hashing/blake2b"
	"github.com/ElrondNetwork/elrond-go/marshal"
)

// Translator self-test: concrete computations through real repository code. The expected strings were
// produced by the compiled code; `gosx selftest` executes every function below in the interpreter AND natively
// and requires both to agree with them.

func verifSelfProto() string {
	tx := &transaction.Transaction{Nonce: 300, Value: big.NewInt(-123456789), RcvAddr: []byte("receiver"), SndAddr: []byte("sender"), GasPrice: 1 << 40, GasLimit: 127,
		Data: []byte{0, 255, 128}, ChainID: []byte("T"), Version: 1, Signature: []byte{9}}
	m := &marshal.GogoProtoMarshalizer{}
	b, _ := m.Marshal(tx)
	back := &transaction.Transaction{}
	err := m.Unmarshal(back, b)
	mb := &block.MiniBlock{TxHashes: [][]byte{{1, 2}, {}, {3}}, ReceiverShardID: 4294967295, SenderShardID: 2, Type: block.RewardsBlock}
	b2, _ := m.Marshal(mb)
	return hex.EncodeToString(b) + "|" + strconv.FormatBool(err == nil && back.Value.Cmp(tx.Value) == 0 && back.GasPrice == tx.GasPrice) + "|" + hex.EncodeToString(b2)
}

func verifSelfHash() string {
	h := blake2b.NewBlake2b()
	a := h.Compute("")
	b := h.Compute("abc")
	c := h.Compute(string(b))
	return hex.EncodeToString(a[:4]) + hex.EncodeToString(b[28:]) + hex.EncodeToString(c[:8])
}

func verifSelfBech32() string {
	conv, _ := pubkeyConverter.NewBech32PubkeyConverter(32)
	key := make([]byte, 32)
	for i := range key {
		key[i] = byte(i * 7)
	}
	s := conv.Encode(key)
	back, err := conv.Decode(s)
	_, errBad := conv.Decode(strings.ToUpper(s[:10]) + s[10:])
	return s + "|" + strconv.FormatBool(err == nil && string(back) == string(key)) + "|" + strconv.FormatBool(errBad == nil)
}

func verifSelfBig() string {
	x, _ := big.NewInt(0).SetString("-123456789012345678901234567890", 10)
	y := big.NewInt(987654321)
	q := big.NewInt(0).Div(x, y)
	r := big.NewInt(0).Mod(x, y)
	p := core.GetIntTrimmedPercentageOfValue(big.NewInt(1000000000000000007), 0.3)
	a := big.NewInt(0).Neg(big.NewInt(0).Abs(r)) // (GetApproximatePercentageOfValue uses big.Float: not interpretable, reported as unsupported)
	e := big.NewInt(0).Exp(big.NewInt(10), big.NewInt(18), nil)
	return q.String() + "|" + r.String() + "|" + p.String() + "|" + a.String() + "|" + hex.EncodeToString(e.Bytes()) + "|" + strconv.Itoa(x.BitLen()) + "|" + strconv.Itoa(x.Sign())
}

type verifSelfPair struct {
	k string
	v int
}

func verifSelfControl() (res string) {
	defer func() {
		if r := recover(); r != nil {
			res += "|recovered"
		}
	}()
	ps := []verifSelfPair{{"b", 2}, {"a", 2}, {"c", 1}, {"a", 1}}
	sort.Slice(ps, func(i, j int) bool {
		if ps[i].v != ps[j].v {
			return ps[i].v < ps[j].v
		}
		return ps[i].k < ps[j].k
	})
	var sb strings.Builder
	for _, p := range ps {
		sb.WriteString(p.k + strconv.Itoa(p.v))
	}
	m := map[string]int{}
	for i, p := range ps {
		m[p.k] += i * p.v
	}
	buf := make([]byte, binary.MaxVarintLen64)
	n := binary.PutUvarint(buf, 1<<35+5)
	v, _ := binary.Uvarint(buf[:n])
	s := []int{1, 2, 3, 4, 5}
	t := append(s[:2], s[3:]...)
	prev, cur := 0, 1
	for i := 0; i < 10; i++ {
		prev, cur = cur, prev+cur
	}
	res = sb.String() + "|" + strconv.Itoa(m["a"]) + strconv.Itoa(m["b"]) + strconv.Itoa(m["c"]) + "|" + hex.EncodeToString(buf[:n]) + strconv.FormatUint(v, 10) + "|" + strconv.Itoa(len(t)) + strconv.Itoa(s[2]) + strconv.Itoa(cap(t)) + "|" + strconv.Itoa(prev) + "," + strconv.Itoa(cur)
	var arr []int
	_ = arr[len(ps)] // index out of range: recovered above
	return res
}

func Verif_Self_proto() {
	verifAssert(verifSelfProto() == "08ac02120501075bcd151a0872656365697665722a0673656e64657238808080808020407f4a0300ff805201545801620109|true|0a0201020a000a010310ffffffff0f180220ff01", "protobuf encoding of a transaction and a miniblock")
	verifReach("end")
}

func Verif_Self_hash() {
	verifAssert(verifSelfHash() == "0e5751c068d52319f6674caaed0b83ea", "blake2b digests")
	verifReach("end")
}

func Verif_Self_bech32() {
	verifAssert(verifSelfBech32() == "erd1qqrsu9guyv4rzwplgex4gkmzd9c8wl593jfe4gdg47mtm3xt6tvspkxl4f|true|false", "bech32 address text form")
	verifReach("end")
}

func Verif_Self_big() {
	verifAssert(verifSelfBig() == "-124999998873437499902|412808652|300000000000000002|-412808652|0de0b6b3a7640000|97|-1", "big integer arithmetic and percentages")
	verifReach("end")
}

func Verif_Self_control() {
	verifAssert(verifSelfControl() == "a1c1a2b2|461|85808080800134359738373|445|55,89|recovered", "sorting, maps, varints, slices, parallel assignment, defer/recover")
	verifReach("end")
}
