package systemSmartContracts

import (
	"bytes"
	"errors"
	"math/big"

	"github.com/ElrondNetwork/elrond-go/marshal"
	"github.com/ElrondNetwork/elrond-go/vm"
	vmcommon "github.com/ElrondNetwork/elrond-vm-common"
)

// ---- environment -------------------------------------------------------------------------------

type verifC39Hook struct {
	vm.BlockchainHook
	nonce uint64
	epoch uint32
}

func (h *verifC39Hook) GetStorageData(accountAddress []byte, index []byte) ([]byte, error) {
	return nil, errors.New("no data")
}
func (h *verifC39Hook) GetUserAccount(address []byte) (vmcommon.UserAccountHandler, error) {
	return nil, errors.New("no account")
}
func (h *verifC39Hook) CurrentNonce() uint64 { return h.nonce }
func (h *verifC39Hook) CurrentRound() uint64 { return h.nonce }
func (h *verifC39Hook) CurrentEpoch() uint32 { return h.epoch }

// the real vmContext (storage, output) with the three questions it forwards to the validator
// statistics answered "no": no key is in the jailed list, has a bad rating, or is an active validator
type verifC39Eei struct{ *vmContext }

func (verifC39Eei) CanUnJail(blsKey []byte) bool   { return false }
func (verifC39Eei) IsBadRating(blsKey []byte) bool { return false }
func (verifC39Eei) IsValidator(blsKey []byte) bool { return false }

var (
	verifC39StakeAcc = []byte("stakeAccessAddr")
	verifC39JailAcc  = []byte("jailAccessAddr_")
	verifC39EndEpoch = []byte("endOfEpochAddr_")
	verifC39Self     = []byte("stakingContract")
	verifC39Owner    = []byte("owner-address__")
)

func verifC39Key(i int) []byte { return []byte{'k', byte('0' + i)} }

func verifC39Contract(numKeys int) (*stakingSC, *verifC39Hook) {
	hook := &verifC39Hook{nonce: 70, epoch: 1}
	host := &vmContext{blockChainHook: hook, inputParser: verifC40Parser{}, scAddress: verifC39Self,
		storageUpdate: map[string]map[string][]byte{}, outputAccounts: map[string]*vmcommon.OutputAccount{}}
	minNodes, maxNodes := verifU64("minNumNodes"), verifU64("maxNumNodes")
	verifAssume(minNodes <= maxNodes && maxNodes >= 1 && maxNodes <= uint64(numKeys)+1)
	s := &stakingSC{eei: verifC39Eei{host}, unBondPeriod: uint64(verifU8("unBondPeriod")), stakeAccessAddr: verifC39StakeAcc, jailAccessAddr: verifC39JailAcc,
		endOfEpochAccessAddr: verifC39EndEpoch, minNumNodes: minNodes, maxNumNodes: maxNodes, marshalizer: &marshal.GogoProtoMarshalizer{},
		stakeValue: big.NewInt(2500), minNodePrice: big.NewInt(2500), walletAddressLen: len(verifC39StakeAcc)}
	// the feature flags are switched on in this order on every network (enable epochs are increasing)
	all := verifParam("allFlags") == 1 // 1: the configuration every network runs today
	if all || verifBool("flagEnableStaking") {
		s.flagEnableStaking.Set()
		if all || verifBool("flagStakingV2") {
			s.flagStakingV2.Set()
			if all || verifBool("flagCorrectLastUnjailed") {
				s.flagCorrectLastUnjailed.Set()
			}
		}
	}
	rc := s.Execute(&vmcommon.ContractCallInput{VMInput: vmcommon.VMInput{CallerAddr: verifC39Owner, CallValue: big.NewInt(0)}, RecipientAddr: verifC39Self, Function: "_init"})
	verifAssert(rc == vmcommon.Ok, "init succeeds")
	return s, hook
}

// the owner's record in the validator contract (read by the queue operations): all keys registered,
// funds for 0..keys+1 nodes
func verifC39OwnerRecord(s *stakingSC, numKeys int, tag string) {
	funds := verifParam("ownerFunds")
	if funds < 0 {
		funds = verifChoice(tag+"ownerFundsNodes", numKeys+2)
	}
	owner := &ValidatorDataV2{RewardAddress: verifC39Owner, TotalStakeValue: big.NewInt(int64(2500 * funds)),
		LockedStake: big.NewInt(0), MaxStakePerNode: big.NewInt(0), TotalUnstaked: big.NewInt(0), TotalSlashed: big.NewInt(0)}
	for i := 0; i < numKeys; i++ {
		owner.BlsPubKeys = append(owner.BlsPubKeys, verifC39Key(i))
	}
	ownerBytes, err := s.marshalizer.Marshal(owner)
	verifAssert(err == nil, "owner record written")
	s.eei.(verifC39Eei).vmContext.SetStorageForAddress(verifC39StakeAcc, verifC39Owner, ownerBytes)
}

func verifC39Call(s *stakingSC, caller []byte, fn string, args ...[]byte) vmcommon.ReturnCode {
	host := s.eei.(verifC39Eei).vmContext
	// a failed call's output is dropped by the caller (scProcessor / systemVM): keep a copy of the storage to restore
	saved := map[string]map[string][]byte{}
	for a, m := range host.storageUpdate {
		c := make(map[string][]byte, len(m))
		for k, v := range m {
			c[k] = v
		}
		saved[a] = c
	}
	rc := s.Execute(&vmcommon.ContractCallInput{VMInput: vmcommon.VMInput{CallerAddr: caller, CallValue: big.NewInt(0), Arguments: args}, RecipientAddr: verifC39Self, Function: fn})
	if rc != vmcommon.Ok {
		host.storageUpdate = saved
	}
	return rc
}

// ---- the consistency conditions of the property, read back from the contract's storage ----------

type verifC39View struct {
	maxEver int64
}

func verifC39Check(s *stakingSC, numKeys int, v *verifC39View, where string) {
	head, err := s.getWaitingListHead()
	verifAssert(err == nil, where+": waiting list head decodes")
	if err != nil {
		return
	}
	inList := make([]bool, numKeys)
	count := uint32(0)
	lastJailedSeen := len(head.LastJailedKey) == 0
	if head.Length == 0 {
		verifAssert(len(s.eei.GetStorage([]byte(waitingListHeadKey))) == 0 || (len(head.FirstKey) == 0 && len(head.LastKey) == 0), where+": an empty waiting list has no first/last key")
		verifAssert(len(head.LastJailedKey) == 0, where+": an empty waiting list has no last-jailed marker")
	} else {
		cur := head.FirstKey
		var prev []byte
		for step := 0; step <= numKeys; step++ {
			el, errGet := s.getWaitingListElement(cur)
			verifAssert(errGet == nil, where+": every key reached through the list links holds an element")
			if errGet != nil {
				return
			}
			count++
			verifAssert(bytes.Equal(s.createWaitingListKey(el.BLSPublicKey), cur), where+": an element is stored under the key of its own BLS key")
			if prev == nil {
				verifAssert(bytes.Equal(el.PreviousKey, cur), where+": the first element points back to itself")
			} else {
				verifAssert(bytes.Equal(el.PreviousKey, prev), where+": previous link matches the element before")
			}
			if bytes.Equal(cur, head.LastJailedKey) {
				lastJailedSeen = true
			}
			found := false
			for i := 0; i < numKeys; i++ {
				if bytes.Equal(el.BLSPublicKey, verifC39Key(i)) {
					verifAssert(!inList[i], where+": no key is in the list twice")
					inList[i] = true
					found = true
				}
			}
			verifAssert(found, where+": the list holds only keys that were added")
			if len(el.NextKey) == 0 {
				verifAssert(bytes.Equal(cur, head.LastKey), where+": the last marker is the element without successor")
				break
			}
			verifAssert(step < numKeys, where+": the list ends (no cycle)")
			prev = cur
			cur = el.NextKey
		}
		verifAssert(count == head.Length, where+": the length marker equals the number of linked elements")
		verifAssert(lastJailedSeen, where+": the last-jailed marker is an element of the list")
	}

	staked := int64(0)
	for i := 0; i < numKeys; i++ {
		data := s.eei.GetStorage(verifC39Key(i))
		reg, errGet := s.getOrCreateRegisteredData(verifC39Key(i))
		verifAssert(errGet == nil, where+": registration data decodes")
		if errGet != nil {
			return
		}
		registered := len(data) > 0 && len(reg.RewardAddress) > 0
		waitingMarked := registered && reg.Waiting
		verifAssert(inList[i] == waitingMarked, where+": the keys in the list are exactly the registered keys marked as waiting")
		verifAssert(!(registered && reg.Waiting && reg.Staked), where+": no key is both staked and waiting")
		if registered && reg.Staked {
			staked++
		}
		if !inList[i] {
			verifAssert(len(s.eei.GetStorage(s.createWaitingListKey(verifC39Key(i)))) == 0, where+": no element is stored for a key outside the list")
		}
	}
	cfg := s.getConfig()
	verifAssert(cfg.StakedNodes == staked, where+": the staked-node counter equals the number of keys marked as staked")
	if cfg.MaxNumNodes > v.maxEver {
		v.maxEver = cfg.MaxNumNodes
	}
	verifAssert(cfg.StakedNodes <= v.maxEver, where+": the staked-node counter never exceeds the maximum unless the maximum was lowered")
}

// ---- operations ---------------------------------------------------------------------------------

const verifC39NumOps = 12

func verifC39Op(s *stakingSC, hook *verifC39Hook, numKeys int, tag string) {
	// time passes
	// time passes (whether an un-bond period has elapsed is decided by the symbolic period)
	hook.nonce += 7
	hook.epoch++
	op := verifChoice(tag+"op", verifC39NumOps)
	key := verifC39Key(0)
	if op < 8 {
		key = verifC39Key(verifChoice(tag+"key", numKeys))
	} else if op > 8 {
		verifC39OwnerRecord(s, numKeys, tag) // the owner's funds may have changed since the last operation
	}
	switch op {
	case 0:
		verifC39Call(s, verifC39StakeAcc, "stake", key, verifC39Owner, verifC39Owner)
	case 1:
		verifC39Call(s, verifC39StakeAcc, "unStake", key, verifC39Owner)
	case 2:
		verifC39Call(s, verifC39StakeAcc, "unBond", key)
	case 3:
		verifC39Call(s, verifC39JailAcc, "jail", key)
	case 4:
		verifC39Call(s, verifC39StakeAcc, "unJail", key)
	case 5:
		verifC39Call(s, verifC39EndEpoch, "switchJailedWithWaiting", key)
	case 6:
		verifC39Call(s, verifC39EndEpoch, "unStakeAtEndOfEpoch", key)
	case 7:
		verifC39Call(s, verifC39StakeAcc, "register", key, verifC39Owner, verifC39Owner)
	case 8:
		verifC39Call(s, verifC39EndEpoch, "resetLastUnJailedFromQueue")
	case 9:
		// systemSCProcessor.updateMaxNodes: set the new maximum, then stake as many nodes from the queue as were added
		newMax := verifU8(tag + "newMax")
		verifAssume(newMax >= 1 && int(newMax) <= numKeys+2)
		prev := s.getConfig().MaxNumNodes
		if verifC39Call(s, verifC39EndEpoch, "updateConfigMaxNodes", []byte{newMax}) == vmcommon.Ok && int64(newMax) > prev {
			verifC39Call(s, verifC39EndEpoch, "stakeNodesFromQueue", []byte{newMax - uint8(prev)})
		}
	case 10:
		// systemSCProcessor.stakeNodesFromQueue after unStaking nodes: never more than the free places
		cfg := s.getConfig()
		n := verifU8(tag + "numToStake")
		verifAssume(int64(n) <= cfg.MaxNumNodes-cfg.StakedNodes)
		verifC39Call(s, verifC39EndEpoch, "stakeNodesFromQueue", []byte{n})
	case 11:
		verifC39Call(s, verifC39EndEpoch, "cleanAdditionalQueue")
	}
}

// Sequences of `ops` operations from the freshly initialised contract over `keys` BLS keys, with the
// node limits, the un-bond period, the feature flags and the passing of time symbolic: after every
// operation the waiting list is a well-formed doubly linked list whose markers match its elements,
// it holds exactly the keys marked as waiting, and the staked-node counter equals the number of keys
// marked as staked and stays within the maximum.
func Verif_C39_sequences() {
	numKeys, ops := verifParam("keys"), verifParam("ops")
	s, hook := verifC39Contract(numKeys)
	v := &verifC39View{}
	verifC39Check(s, numKeys, v, "init")
	for i := 0; i < ops; i++ {
		verifC39Op(s, hook, numKeys, string(rune('a'+i)))
		verifC39Check(s, numKeys, v, "op")
	}
	verifReach("end")
}

// ---- one step from an arbitrary consistent state ------------------------------------------------

// verifC39AnyState writes an arbitrary state that satisfies the consistency conditions: any ordered
// subset of the keys as waiting list, any member (or none) as last-jailed marker, every other key
// unregistered, staked or registered-but-not-staked, with arbitrary jail flags, counters and nonces.
func verifC39AnyState(s *stakingSC, numKeys int) {
	used := make([]bool, numKeys)
	var order []int
	n := verifChoice("listLen", numKeys+1)
	for j := 0; j < n; j++ {
		var free []int
		for i := 0; i < numKeys; i++ {
			if !used[i] {
				free = append(free, i)
			}
		}
		k := free[verifChoice("listPick"+string(rune('0'+j)), len(free))]
		used[k] = true
		order = append(order, k)
	}
	staked := int64(0)
	for i := 0; i < numKeys; i++ {
		tag := "key" + string(rune('0'+i))
		kind := 1 // waiting
		if !used[i] {
			kind = 2 + verifChoice(tag+"kind", 3) // 2 unregistered, 3 staked, 4 registered and not staked
		}
		if kind == 2 {
			continue
		}
		reg, _ := s.getOrCreateRegisteredData(verifC39Key(i))
		reg.RewardAddress = verifC39Owner
		reg.OwnerAddress = verifC39Owner
		reg.StakeValue = big.NewInt(2500)
		if verifBool(tag + "jailed") { // (a concrete flag per path: a symbolic one forks in the record's Size anyway)
			reg.Jailed = true
		}
		// (non-zero values: a zero field is left out of the stored record, which would fork per field)
		reg.NumJailed = 1 + uint32(verifU8(tag+"numJailed")&1)
		reg.RegisterNonce = 1
		reg.JailedNonce = 3
		reg.UnJailedNonce = 2
		if kind == 4 && verifBool(tag+"wasUnStaked") {
			reg.UnStakedNonce = 1 + uint64(verifU8(tag+"unStakedNonce")&63)
		}
		reg.Waiting = kind == 1
		reg.Staked = kind == 3
		if reg.Staked {
			staked++
			reg.StakedNonce = reg.RegisterNonce
		}
		verifAssert(s.saveStakingData(verifC39Key(i), reg) == nil, "pre-state record written")
	}
	if n > 0 {
		head := &WaitingList{Length: uint32(n), FirstKey: s.createWaitingListKey(verifC39Key(order[0])), LastKey: s.createWaitingListKey(verifC39Key(order[n-1])), LastJailedKey: []byte{}}
		if lj := verifChoice("lastJailed", n+1); lj > 0 {
			head.LastJailedKey = s.createWaitingListKey(verifC39Key(order[lj-1]))
		}
		for j, k := range order {
			el := &ElementInList{BLSPublicKey: verifC39Key(k), NextKey: []byte{}}
			if j == 0 {
				el.PreviousKey = s.createWaitingListKey(verifC39Key(k))
			} else {
				el.PreviousKey = s.createWaitingListKey(verifC39Key(order[j-1]))
			}
			if j+1 < n {
				el.NextKey = s.createWaitingListKey(verifC39Key(order[j+1]))
			}
			verifAssert(s.saveWaitingListElement(s.createWaitingListKey(verifC39Key(k)), el) == nil, "pre-state element written")
		}
		verifAssert(s.saveWaitingListHead(head) == nil, "pre-state head written")
	}
	cfg := s.getConfig()
	cfg.StakedNodes = staked
	cfg.JailedNodes = int64(verifChoice("jailedNodes", 2))
	s.setConfig(cfg)
}

// One operation from an arbitrary consistent state (every state a history can reach is among them,
// if the conditions are preserved by every operation, which is what is asserted): the conditions hold
// again afterwards, and the staked-node counter does not grow beyond the maximum.
func Verif_C39_step() {
	numKeys := verifParam("keys")
	s, hook := verifC39Contract(numKeys)
	verifC39AnyState(s, numKeys)
	v := &verifC39View{}
	cfg := s.getConfig()
	v.maxEver = cfg.MaxNumNodes
	if cfg.StakedNodes > v.maxEver {
		v.maxEver = cfg.StakedNodes // the maximum was lowered earlier
	}
	verifC39Check(s, numKeys, v, "pre") // the constructed state satisfies the conditions (sanity of the generator)
	verifC39Op(s, hook, numKeys, "a")
	verifC39Check(s, numKeys, v, "post")
	verifReach("end")
}
