package immunitycache


func Verif_C27_chunkConfig() {
	cfg := CacheConfig{Name: "x", NumChunks: verifU32("chunks"), MaxNumItems: verifU32("items"), MaxNumBytes: verifU32("bytes"), NumItemsToPreemptivelyEvict: verifU32("evict")}
	if cfg.Verify() != nil {
		verifReach("rejected")
		return
	}
	cc := cfg.getChunkConfig()
	verifAssert(cc.maxNumItems >= 1, "per-chunk item limit >= 1")
	verifAssert(cc.maxNumBytes >= 1, "per-chunk byte limit >= 1")
	verifAssert(cc.numItemsToPreemptivelyEvict >= 1, "per-chunk eviction batch >= 1")
	verifReach("accepted")
}
