package immunitycache


func Verif_C27_chunkConfig() {
	cfg := CacheConfig{Name: "x", NumChunks: verifU32("chunks"), MaxNumItems: verifU32("items"), MaxNumBytes: verifU32("bytes"), NumItemsToPreemptivelyEvict: verifU32("evict")}
	if cfg.Verify() != nil {
		verifReach("rejected")
		return
	}
	cc := cfg.getChunkConfig()
	verifAssert(cc.maxNumItems >= 1, "per-chunk item limit >= 1")
	verifAssert(cc.maxNumBytes >= 1, "per-chunk byte limit >= 1")
	verifAssert(cc.numItemsToPreemptivelyEvict >= 1, "per-chunk eviction batch >= 1")
	verifReach("accepted")
}

// Chunk level: every sequence of operations (add with a symbolic size, immunize a present or an absent
// key, remove) on a chunk whose limits are symbolic (each >= 1, as getChunkConfig guarantees).
func Verif_C27_chunkSequence() {
	cfg := immunityChunkConfig{cacheName: "x", maxNumItems: uint32(1 + verifChoice("maxItems", 2)), maxNumBytes: verifU32("maxBytes"), numItemsToPreemptivelyEvict: uint32(1 + verifChoice("evictBatch", 2))}
	verifAssume(cfg.maxNumBytes >= 1 && cfg.maxNumBytes <= 1000)
	chunk := newImmunityChunk(cfg)
	keys := []string{"a", "b", "c", "d"}[:verifParam("keys")]
	immune := map[string]bool{} // keys immunized and not removed since
	steps := verifParam("steps")
	for s := 0; s < steps; s++ {
		k := keys[verifChoice("key", len(keys))]
		switch verifChoice("op", 3) {
		case 0:
			size := int(verifU8("size"))
			verifAssume(size >= 1)
			hadNonImmune := false
			for _, kk := range chunk.KeysInOrder() {
				it, _ := chunk.GetItem(string(kk))
				if !it.isImmuneToEviction() {
					hadNonImmune = true
				}
			}
			wasFull := chunk.Count() >= int(cfg.maxNumItems) || chunk.NumBytes() >= int(cfg.maxNumBytes)
			has, added := chunk.AddItem(newCacheItem(k, k, size))
			if !has && wasFull && hadNonImmune {
				verifAssert(added, "a full chunk that holds a non-immune item still admits a new item")
			}
			if !wasFull && !has {
				verifAssert(added, "a chunk that is not full admits a new item")
			}
		case 1:
			chunk.ImmunizeKeys([][]byte{[]byte(k)})
			immune[k] = true
		case 2:
			chunk.RemoveItem(k)
			delete(immune, k)
		}
		// invariants after every step
		nonImmuneCount, nonImmuneBytes, total := 0, 0, 0
		for _, kk := range chunk.KeysInOrder() {
			it, ok := chunk.GetItem(string(kk))
			verifAssert(ok, "listed key is present")
			total += it.size
			if !it.isImmuneToEviction() {
				nonImmuneCount++
				nonImmuneBytes += it.size
			}
		}
		verifAssert(chunk.NumBytes() == total, "byte counter equals the sum of the item sizes")
		verifAssert(nonImmuneCount <= int(cfg.maxNumItems), "non-immune items within the item limit")
		// an immunized key that is present stays present (it is never evicted): re-check all immunized keys that were present before
	}
	verifReach("end")
}

// Immune items survive: an immunized present item is still there after any number of later additions.
func Verif_C27_immuneSurvives() {
	cfg := immunityChunkConfig{cacheName: "x", maxNumItems: 2, maxNumBytes: 1000, numItemsToPreemptivelyEvict: uint32(1 + verifChoice("evictBatch", 2))}
	chunk := newImmunityChunk(cfg)
	chunk.AddItem(newCacheItem("keep", "keep", int(verifU8("s0"))+1))
	if verifBool("immunizeBeforeAdd") {
		chunk.ImmunizeKeys([][]byte{[]byte("later")})
	}
	chunk.ImmunizeKeys([][]byte{[]byte("keep")})
	names := []string{"x1", "x2", "later", "x3"}
	for i := 0; i < verifParam("adds"); i++ {
		chunk.AddItem(newCacheItem(names[i], names[i], int(verifU8("s"))+1))
		_, ok := chunk.GetItem("keep")
		verifAssert(ok, "an immune item is never evicted")
	}
	verifReach("end")
}
