package transaction

import (
	"errors"
	"math/big"

	"github.com/ElrondNetwork/elrond-go/core"
	"github.com/ElrondNetwork/elrond-go/data"
	"github.com/ElrondNetwork/elrond-go/data/state"
	"github.com/ElrondNetwork/elrond-go/data/transaction"
	"github.com/ElrondNetwork/elrond-go/hashing/blake2b"
	"github.com/ElrondNetwork/elrond-go/process"
	"github.com/ElrondNetwork/elrond-go/sharding"
	vmcommon "github.com/ElrondNetwork/elrond-vm-common"
)

// ---- environment -------------------------------------------------------------------------------

type verifC23Accounts struct {
	state.AccountsAdapter
	accs map[string]state.UserAccountHandler
}

func (a *verifC23Accounts) LoadAccount(address []byte) (vmcommon.AccountHandler, error) {
	acc, ok := a.accs[string(address)]
	if !ok {
		n, _ := state.NewUserAccount(address)
		a.accs[string(address)] = n
		return n, nil
	}
	return acc, nil
}
func (a *verifC23Accounts) SaveAccount(account vmcommon.AccountHandler) error { return nil }
func (a *verifC23Accounts) JournalLen() int                                  { return 0 }
func (a *verifC23Accounts) IsInterfaceNil() bool                             { return a == nil }

// fee handler obeying the contract established for the real one in C21: move fee <= fee <= gasLimit*gasPrice
type verifC23Fees struct {
	process.FeeHandler
	fee, move *big.Int
	valid     bool
}

func (f *verifC23Fees) CheckValidityTxValues(tx process.TransactionWithFeeHandler) error {
	if !f.valid {
		return process.ErrInsufficientGasLimitInTx
	}
	return nil
}
func (f *verifC23Fees) ComputeTxFee(tx process.TransactionWithFeeHandler) *big.Int { return big.NewInt(0).Set(f.fee) }
func (f *verifC23Fees) ComputeMoveBalanceFee(tx process.TransactionWithFeeHandler) *big.Int {
	return big.NewInt(0).Set(f.move)
}
func (f *verifC23Fees) ComputeGasLimit(tx process.TransactionWithFeeHandler) uint64 { return 50000 }
func (f *verifC23Fees) IsInterfaceNil() bool                                         { return f == nil }

type verifC23TxType struct{}

func (verifC23TxType) ComputeTransactionType(tx data.TransactionHandler) (process.TransactionType, process.TransactionType) {
	return process.MoveBalance, process.MoveBalance
}
func (verifC23TxType) IsInterfaceNil() bool { return false }

type verifC23SC struct {
	process.SmartContractProcessor
	payable bool
}

func (s *verifC23SC) IsPayable(address []byte) (bool, error) { return s.payable, nil }
func (s *verifC23SC) ProcessIfError(acntSnd state.UserAccountHandler, txHash []byte, tx data.TransactionHandler, returnCode string, returnMessage []byte, snapshot int, gasLocked uint64) error {
	return nil
}
func (s *verifC23SC) IsInterfaceNil() bool { return s == nil }

type verifC23Forwarder struct {
	process.IntermediateTransactionHandler
	n int
}

func (f *verifC23Forwarder) AddIntermediateTransactions(txs []data.TransactionHandler) error {
	f.n += len(txs)
	return nil
}
func (f *verifC23Forwarder) IsInterfaceNil() bool { return f == nil }

type verifC23Collector struct {
	process.TransactionFeeHandler
	total *big.Int
}

func (c *verifC23Collector) ProcessTransactionFee(cost *big.Int, devFee *big.Int, txHash []byte) {
	c.total.Add(c.total, cost)
}
func (c *verifC23Collector) IsInterfaceNil() bool { return c == nil }

type verifC23Conv struct{}

func (verifC23Conv) Len() int                          { return 4 }
func (verifC23Conv) Decode(s string) ([]byte, error)   { return []byte(s), nil }
func (verifC23Conv) Encode(b []byte) string            { return string(b) }
func (verifC23Conv) IsInterfaceNil() bool              { return false }

type verifC23Marsh struct{}

func (verifC23Marsh) Marshal(obj interface{}) ([]byte, error)      { return []byte("tx"), nil }
func (verifC23Marsh) Unmarshal(obj interface{}, b []byte) error    { return nil }
func (verifC23Marsh) IsInterfaceNil() bool                         { return false }

// ---- the check ---------------------------------------------------------------------------------

func Verif_C23_moveBalance() {
	coord, _ := sharding.NewMultiShardCoordinator(1, 0)
	accs := &verifC23Accounts{accs: map[string]state.UserAccountHandler{}}
	fees := &verifC23Fees{fee: verifBig("fee"), move: verifBig("moveFee"), valid: verifBool("feeValuesValid")}
	verifAssume(fees.move.Sign() >= 0 && fees.move.Cmp(fees.fee) <= 0)
	sc := &verifC23SC{payable: verifBool("receiverPayable")}
	collector := &verifC23Collector{total: big.NewInt(0)}
	bad, rcpt := &verifC23Forwarder{}, &verifC23Forwarder{}
	txProc := &txProcessor{
		baseTxProcessor: &baseTxProcessor{accounts: accs, shardCoordinator: coord, pubkeyConv: verifC23Conv{}, economicsFee: fees,
			hasher: blake2b.NewBlake2b(), marshalizer: verifC23Marsh{}, scProcessor: sc},
		txFeeHandler: collector, txTypeHandler: verifC23TxType{}, receiptForwarder: rcpt, badTxForwarder: bad,
	}
	if verifBool("penalizedFlag") {
		txProc.flagPenalizedTooMuchGas.Set()
	}
	txProc.flagMetaProtection.Set()

	sndAddr, rcvAddr := []byte("alic"), []byte("bobb")
	if verifBool("selfTransfer") {
		rcvAddr = sndAddr
	}
	snd, _ := state.NewUserAccount(sndAddr)
	sndBalance, sndNonce := verifBig("senderBalance"), verifU64("senderNonce")
	verifAssume(sndBalance.Sign() >= 0 && sndNonce < 1<<62)
	_ = snd.AddToBalance(sndBalance)
	snd.IncreaseNonce(sndNonce)
	accs.accs[string(sndAddr)] = snd
	var rcv state.UserAccountHandler = snd
	rcvBalance := big.NewInt(0).Set(sndBalance)
	if string(rcvAddr) != string(sndAddr) {
		r, _ := state.NewUserAccount(rcvAddr)
		rcvBalance = verifBig("receiverBalance")
		verifAssume(rcvBalance.Sign() >= 0)
		_ = r.AddToBalance(rcvBalance)
		accs.accs[string(rcvAddr)] = r
		rcv = r
	}
	value := verifBig("value")
	verifAssume(value.Sign() >= 0)
	tx := &transaction.Transaction{Nonce: verifU64("txNonce"), Value: value, SndAddr: sndAddr, RcvAddr: rcvAddr, GasPrice: verifU64("gasPrice"), GasLimit: verifU64("gasLimit")}
	// C21's contract for the fee handler: fee <= gasLimit*gasPrice
	verifAssume(fees.fee.Cmp(core.SafeMul(tx.GasLimit, tx.GasPrice)) <= 0)

	_, err := txProc.ProcessTransaction(tx)

	// the callers revert every change unless the error is nil or ErrFailedTransaction
	if err != nil && !errors.Is(err, process.ErrFailedTransaction) {
		verifAssert(collector.total.Sign() == 0, "a rejected transaction accounts no fee")
		verifReach("rejected (reverted by the caller)")
		return
	}
	sndAfter, rcvAfter := snd.GetBalance(), rcv.GetBalance()
	charged := collector.total
	verifAssert(snd.GetNonce() == sndNonce+1, "the sender nonce advances by exactly one when something is charged")
	verifAssert(sndAfter.Sign() >= 0, "the sender balance never becomes negative")
	if err == nil {
		// success
		verifAssert(tx.Nonce == sndNonce, "only a transaction with the account's nonce succeeds")
		if string(rcvAddr) != string(sndAddr) {
			verifAssert(big.NewInt(0).Add(rcvAfter, big.NewInt(0)).Cmp(big.NewInt(0).Add(rcvBalance, value)) == 0, "receiver increased by the value")
			dec := big.NewInt(0).Sub(sndBalance, sndAfter)
			verifAssert(dec.Cmp(big.NewInt(0).Add(value, charged)) == 0, "sender decreased by value plus the accounted fee")
		} else {
			dec := big.NewInt(0).Sub(sndBalance, sndAfter)
			verifAssert(dec.Cmp(charged) == 0, "self transfer: only the fee leaves the account")
		}
		verifAssert(charged.Cmp(fees.move) == 0, "the accounted fee is the move-balance fee")
		verifReach("succeeded")
		return
	}
	if !sc.payable {
		// non-payable receiver: the error path belongs to the smart contract processor (stubbed here)
		verifReach("receiver not payable (SC processor path, outside the claim)")
		return
	}
	// failed transaction (insufficient funds): only the fee is charged
	dec := big.NewInt(0).Sub(sndBalance, sndAfter)
	verifAssert(dec.Cmp(fees.fee) == 0 && charged.Cmp(fees.fee) == 0, "a failed transaction charges exactly the fee")
	if string(rcvAddr) != string(sndAddr) {
		verifAssert(rcvAfter.Cmp(rcvBalance) == 0, "a failed transaction leaves the receiver untouched")
	}
	verifAssert(bad.n == 1, "the failed transaction is forwarded as bad transaction")
	verifReach("failed (fee charged)")
}
