package sharding

import "github.com/ElrondNetwork/elrond-go/core"

type verifShuffleCase struct {
	args     ArgsUpdateNodes
	all      []Validator // eligible + waiting + new, every validator once
	oldLists []Validator // eligible + waiting
	rhs      *randHashShuffler
	minShard int
	minMeta  int
}

func verifVal(name string) Validator {
	v, _ := NewValidator([]byte(name), 1, 0)
	return v
}

func verifHasKey(l []Validator, v Validator) int {
	n := 0
	for _, x := range l {
		if string(x.PubKey()) == string(v.PubKey()) {
			n++
		}
	}
	return n
}

// One shard + the metachain. List sizes are symbolic choices, the configured shard sizes, the shuffle
// quota, the three feature flags and the membership of every validator in the two leaving lists are
// symbolic; the shuffle order is decided by the (modelled) hash, i.e. every order is explored.
func verifShuffleSetup(metaFirst bool) *verifShuffleCase {
	c := &verifShuffleCase{}
	nE0, nW0 := verifParam("eligibleShard"), verifParam("waitingShard")
	nEM, nWM := verifParam("eligibleMeta"), verifParam("waitingMeta")
	nNew := verifParam("newNodes")
	mk := func(prefix string, n int) []Validator {
		var l []Validator
		for i := 0; i < n; i++ {
			l = append(l, verifVal(prefix+string(rune('a'+i))))
		}
		return l
	}
	e0, w0, eM, wM, nw := mk("e0", nE0), mk("w0", nW0), mk("eM", nEM), mk("wM", nWM), mk("nw", nNew)
	elig, wait := map[uint32][]Validator{}, map[uint32][]Validator{}
	if metaFirst {
		elig[core.MetachainShardId], wait[core.MetachainShardId] = eM, wM
		elig[0], wait[0] = e0, w0
	} else {
		elig[0], wait[0] = e0, w0
		elig[core.MetachainShardId], wait[core.MetachainShardId] = eM, wM
	}
	for _, l := range [][]Validator{e0, w0, eM, wM} {
		c.oldLists = append(c.oldLists, l...)
	}
	c.all = append(append([]Validator{}, c.oldLists...), nw...)
	// leaving requests: up to two unstake requests and one additional one, each for any validator of the old
	// lists (possibly the same one twice), plus optionally a request for a key that is in no list
	var unstake, additional []Validator
	n := len(c.oldLists)
	ia := verifChoice("unstakeA", n+1)
	if ia < n {
		unstake = append(unstake, c.oldLists[ia])
		switch verifChoice("unstakeSecond", 3) {
		case 1:
			unstake = append(unstake, c.oldLists[(ia+1)%n])
		case 2:
			unstake = append(unstake, c.oldLists[ia]) // the same validator requested twice
		}
	}
	switch verifChoice("additional", 3) {
	case 1:
		if ia < n {
			additional = append(additional, c.oldLists[ia]) // the same validator in both leaving lists
		}
	case 2:
		additional = append(additional, c.oldLists[(ia+2)%n])
	}
	if verifBool("unknownLeaving") {
		unstake = append(unstake, verifVal("zz"))
	}
	ns, nm := uint32(verifParam("minShard")+verifChoice("nodesShard", 2)), uint32(verifParam("minMeta")+verifChoice("nodesMeta", 2))
	c.minShard, c.minMeta = int(ns), int(nm)
	c.rhs = &randHashShuffler{nodesShard: ns, nodesMeta: nm, validatorDistributor: &CrossShardValidatorDistributor{}, shuffleBetweenShards: true}
	if verifParam("intraShard") == 1 {
		c.rhs.validatorDistributor = &IntraShardValidatorDistributor{}
	}
	// feature flags through their enable epochs (epoch of the call is 10)
	if !verifBool("balanceWaitingLists") {
		c.rhs.balanceWaitingListsEnableEpoch = 100
	}
	if !verifBool("waitingListFix") {
		c.rhs.waitingListFixEnableEpoch = 100
	}
	c.args = ArgsUpdateNodes{Eligible: elig, Waiting: wait, NewNodes: nw, UnStakeLeaving: unstake, AdditionalLeaving: additional, Rand: []byte("rnd"), NbShards: 1, Epoch: 10}
	return c
}

func verifFlatten(m map[uint32][]Validator) []Validator {
	var out []Validator
	out = append(out, m[0]...)
	out = append(out, m[core.MetachainShardId]...)
	for k, l := range m {
		if k != 0 && k != core.MetachainShardId {
			out = append(out, l...)
		}
	}
	return out
}

// C12: conservation.
func Verif_C12_conservation() {
	c := verifShuffleSetup(false)
	res, err := c.rhs.UpdateNodeLists(c.args)
	if err != nil {
		verifReach("rejected (a shard smaller than its configured size)")
		return
	}
	newE, newW := verifFlatten(res.Eligible), verifFlatten(res.Waiting)
	for _, v := range c.all {
		places := verifHasKey(newE, v) + verifHasKey(newW, v) + verifHasKey(res.Leaving, v)
		verifAssert(places == 1, "every validator ends up in exactly one of: new eligible, new waiting, leaving")
	}
	verifAssert(len(newE)+len(newW)+len(res.Leaving) >= len(c.all), "nothing lost")
	for _, v := range res.Leaving {
		// known region for the not-yet-fixed reporting of unknown keys is excluded by the fix commit; kept as assertion
		verifAssert(verifHasKey(c.oldLists, v) == 1, "a validator reported as leaving was eligible or waiting before")
	}
	for _, v := range res.StillRemaining {
		// (a validator requested twice may have left through its first request; the duplicate then stays "remaining")
		if verifHasKey(res.Leaving, v) == 0 {
			verifAssert(verifHasKey(newE, v)+verifHasKey(newW, v) == 1, "a leaving request that was not honoured leaves the validator in its lists")
		}
	}
	for _, v := range append(append([]Validator{}, newE...), newW...) {
		verifAssert(verifHasKey(c.all, v) == 1, "no validator appears out of nowhere")
	}
	verifReach("shuffled")
}

// C14: minimum sizes with the waiting-list fix.
func Verif_C14_minimumSize() {
	c := verifShuffleSetup(false)
	c.rhs.waitingListFixEnableEpoch = 0
	res, err := c.rhs.UpdateNodeLists(c.args)
	if err != nil {
		verifReach("rejected (precondition: every shard starts with at least its minimum)")
		return
	}
	verifAssert(len(res.Eligible[0]) >= c.minShard, "the shard keeps at least its minimum number of eligible validators")
	verifAssert(len(res.Eligible[core.MetachainShardId]) >= c.minMeta, "the metachain keeps at least its minimum number of eligible validators")
	verifReach("shuffled")
}

// C13: determinism with respect to how the input maps were built (insertion order of the shards).
func Verif_C13_mapConstruction() {
	c1 := verifShuffleSetup(false)
	r1, e1 := c1.rhs.UpdateNodeLists(c1.args)
	// same inputs, maps filled in the opposite order, fresh shuffler with the same parameters
	elig, wait := map[uint32][]Validator{}, map[uint32][]Validator{}
	elig[core.MetachainShardId], wait[core.MetachainShardId] = c1.args.Eligible[core.MetachainShardId], c1.args.Waiting[core.MetachainShardId]
	elig[0], wait[0] = c1.args.Eligible[0], c1.args.Waiting[0]
	a2 := c1.args
	a2.Eligible, a2.Waiting = elig, wait
	rhs2 := &randHashShuffler{nodesShard: c1.rhs.nodesShard, nodesMeta: c1.rhs.nodesMeta, validatorDistributor: c1.rhs.validatorDistributor, shuffleBetweenShards: true,
		balanceWaitingListsEnableEpoch: c1.rhs.balanceWaitingListsEnableEpoch, waitingListFixEnableEpoch: c1.rhs.waitingListFixEnableEpoch}
	r2, e2 := rhs2.UpdateNodeLists(a2)
	verifAssert((e1 == nil) == (e2 == nil), "same outcome")
	if e1 != nil || e2 != nil {
		verifReach("rejected")
		return
	}
	same := func(a, b []Validator) bool {
		if len(a) != len(b) {
			return false
		}
		for i := range a {
			if string(a[i].PubKey()) != string(b[i].PubKey()) {
				return false
			}
		}
		return true
	}
	verifAssert(same(r1.Eligible[0], r2.Eligible[0]) && same(r1.Eligible[core.MetachainShardId], r2.Eligible[core.MetachainShardId]), "identical eligible lists")
	verifAssert(same(r1.Waiting[0], r2.Waiting[0]) && same(r1.Waiting[core.MetachainShardId], r2.Waiting[core.MetachainShardId]), "identical waiting lists")
	verifAssert(same(r1.Leaving, r2.Leaving), "identical leaving list")
	verifReach("shuffled")
}
