package factory

import (
	"bytes"

	"github.com/ElrondNetwork/elrond-go/core/dblookupext"
	"github.com/ElrondNetwork/elrond-go/data/batch"
	"github.com/ElrondNetwork/elrond-go/data/block"
	"github.com/ElrondNetwork/elrond-go/data/receipt"
	"github.com/ElrondNetwork/elrond-go/data/rewardTx"
	"github.com/ElrondNetwork/elrond-go/data/smartContractResult"
	"github.com/ElrondNetwork/elrond-go/data/state"
	"github.com/ElrondNetwork/elrond-go/data/transaction"
	"github.com/ElrondNetwork/elrond-go/data/trie"
	"github.com/ElrondNetwork/elrond-go/marshal"
	"github.com/ElrondNetwork/elrond-go/vm/systemSmartContracts"
)

type verifProto interface {
	Equal(that interface{}) bool
}

// Deterministic encoding and round trip through the real GogoProtoMarshalizer and the generated code.
// mk() gives fresh empty objects of the type under test.
func verifRoundTrip(mk func() verifProto, name string) {
	m := &marshal.GogoProtoMarshalizer{}
	n := verifFill(mk(), -1, name+"dry") // number of scalar slots of the type
	wide := verifChoice("wide", n+1)      // which slot ranges over all its values (n: none)
	obj := mk()
	verifFill(obj, wide, name)
	b1, err1 := m.Marshal(obj)
	b2, err2 := m.Marshal(obj)
	verifAssert(err1 == nil && err2 == nil, "marshal succeeds")
	verifAssert(bytes.Equal(b1, b2), "encoding is deterministic")
	back := mk()
	err := m.Unmarshal(back, b1)
	verifAssert(err == nil, "decoding the encoding succeeds")
	verifAssert(back.Equal(obj), "decoded structure equals the original")
	verifAssert(obj.Equal(back), "equality is symmetric")
	b3, _ := m.Marshal(back)
	verifAssert(bytes.Equal(b1, b3), "re-encoding the decoded structure gives the same bytes")
	verifReach(name)
}

func Verif_C45_Transaction() { verifRoundTrip(func() verifProto { return &transaction.Transaction{} }, "Transaction") }
func Verif_C45_MiniBlock()   { verifRoundTrip(func() verifProto { return &block.MiniBlock{} }, "MiniBlock") }
func Verif_C45_MiniBlockHeader() {
	verifRoundTrip(func() verifProto { return &block.MiniBlockHeader{} }, "MiniBlockHeader")
}
func Verif_C45_Header()    { verifRoundTrip(func() verifProto { return &block.Header{} }, "Header") }
func Verif_C45_MetaBlock() { verifRoundTrip(func() verifProto { return &block.MetaBlock{} }, "MetaBlock") }
func Verif_C45_Body()      { verifRoundTrip(func() verifProto { return &block.Body{} }, "Body") }
func Verif_C45_Receipt()   { verifRoundTrip(func() verifProto { return &receipt.Receipt{} }, "Receipt") }
func Verif_C45_SmartContractResult() {
	verifRoundTrip(func() verifProto { return &smartContractResult.SmartContractResult{} }, "SmartContractResult")
}
func Verif_C45_RewardTx() { verifRoundTrip(func() verifProto { return &rewardTx.RewardTx{} }, "RewardTx") }
func Verif_C45_Batch()    { verifRoundTrip(func() verifProto { return &batch.Batch{} }, "Batch") }
func Verif_C45_TrieBranch() {
	verifRoundTrip(func() verifProto { return &trie.CollapsedBn{} }, "CollapsedBn")
}
func Verif_C45_TrieExtension() {
	verifRoundTrip(func() verifProto { return &trie.CollapsedEn{} }, "CollapsedEn")
}
func Verif_C45_TrieLeaf() { verifRoundTrip(func() verifProto { return &trie.CollapsedLn{} }, "CollapsedLn") }
func Verif_C45_UserAccountData() {
	verifRoundTrip(func() verifProto { return &state.UserAccountData{} }, "UserAccountData")
}
func Verif_C45_ValidatorInfo() {
	verifRoundTrip(func() verifProto { return &state.ValidatorInfo{} }, "ValidatorInfo")
}
func Verif_C45_PeerAccountData() {
	verifRoundTrip(func() verifProto { return &state.PeerAccountData{} }, "PeerAccountData")
}
func Verif_C45_DelegationContractStatus() {
	verifRoundTrip(func() verifProto { return &systemSmartContracts.DelegationContractStatus{} }, "DelegationContractStatus")
}
func Verif_C45_DelegatorData() {
	verifRoundTrip(func() verifProto { return &systemSmartContracts.DelegatorData{} }, "DelegatorData")
}
func Verif_C45_Fund() { verifRoundTrip(func() verifProto { return &systemSmartContracts.Fund{} }, "Fund") }
func Verif_C45_GlobalFundData() {
	verifRoundTrip(func() verifProto { return &systemSmartContracts.GlobalFundData{} }, "GlobalFundData")
}
func Verif_C45_StakedData() {
	verifRoundTrip(func() verifProto { return &systemSmartContracts.StakedDataV2_0{} }, "StakedDataV2_0")
}
func Verif_C45_ValidatorData() {
	verifRoundTrip(func() verifProto { return &systemSmartContracts.ValidatorDataV2{} }, "ValidatorDataV2")
}
func Verif_C45_ESDTData() {
	verifRoundTrip(func() verifProto { return &systemSmartContracts.ESDTData{} }, "ESDTData")
}
func Verif_C45_MiniblockMetadata() {
	verifRoundTrip(func() verifProto { return &dblookupext.MiniblockMetadata{} }, "MiniblockMetadata")
}
