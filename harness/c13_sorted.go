package sharding

// The node lists handed to the shuffler are built by merging per-shard maps. Go iterates a map in an
// unspecified order, so the merged list must not depend on it: three validators spread over two shards,
// indexes and keys symbolic (equal indexes in different shards included), the map filled in two different
// orders (the engine iterates in insertion order) - the merged, sorted list is the same.
func Verif_C13_sortedListIndependentOfMapOrder() {
	mk := func(tag string) Validator {
		v, _ := NewValidator(verifBytes(tag+"key", 1), 1, uint32(verifU8(tag+"index")&3))
		return v
	}
	a, b, c := mk("a"), mk("b"), mk("c")
	// distinct validators have distinct keys
	verifAssume(a.PubKey()[0] != b.PubKey()[0] && a.PubKey()[0] != c.PubKey()[0] && b.PubKey()[0] != c.PubKey()[0])
	verifAssume(a.Index() <= c.Index()) // the list of one shard is already in order
	m1 := map[uint32][]Validator{}
	m1[0] = []Validator{a, c}
	m1[1] = []Validator{b}
	m2 := map[uint32][]Validator{}
	m2[1] = []Validator{b}
	m2[0] = []Validator{a, c}
	ihgs := &indexHashedNodesCoordinator{}
	l1 := ihgs.createSortedListFromMap(m1)
	l2 := ihgs.createSortedListFromMap(m2)
	same := func(x, y []Validator) bool {
		if len(x) != len(y) {
			return false
		}
		for i := range x {
			if x[i].PubKey()[0] != y[i].PubKey()[0] || x[i].Index() != y[i].Index() {
				return false
			}
		}
		return true
	}
	if verifIsReplay() {
		// natively the iteration order is random: look at a number of runs over the same map
		for i := 0; i < 200 && same(l1, l2); i++ {
			l2 = ihgs.createSortedListFromMap(m1)
		}
	}
	verifAssert(len(l1) == 3, "all validators are in the merged list")
	verifAssert(same(l1, l2), "the merged list does not depend on the iteration order of the map")
	verifReach("end")
}
