package floodPreventers

import "github.com/ElrondNetwork/elrond-go/core"


// one-slot cacher stub: the quota record of the single peer under test
type verifCacher struct{ v interface{} }

func (c *verifCacher) Clear()                                                  { c.v = nil }
func (c *verifCacher) Put(key []byte, value interface{}, sizeInBytes int) bool { c.v = value; return false }
func (c *verifCacher) Get(key []byte) (interface{}, bool)                      { return c.v, c.v != nil }
func (c *verifCacher) Has(key []byte) bool                                     { return c.v != nil }
func (c *verifCacher) Peek(key []byte) (interface{}, bool)                     { return c.v, c.v != nil }
func (c *verifCacher) HasOrAdd(key []byte, value interface{}, sizeInBytes int) (bool, bool) {
	return false, false
}
func (c *verifCacher) Remove(key []byte)                                                 { c.v = nil }
func (c *verifCacher) Keys() [][]byte                                                    { return nil }
func (c *verifCacher) Len() int                                                          { return 0 }
func (c *verifCacher) SizeInBytesContained() uint64                                      { return 0 }
func (c *verifCacher) MaxSize() int                                                      { return 1 }
func (c *verifCacher) RegisterHandler(handler func(key []byte, value interface{}), id string) {}
func (c *verifCacher) UnRegisterHandler(id string)                                       {}
func (c *verifCacher) Close() error                                                      { return nil }
func (c *verifCacher) IsInterfaceNil() bool                                              { return c == nil }

var verifPercents = []float32{0, 10, 50, 90}

func Verif_C42_quota() {
	maxMsgs := verifU32("maxMsgs")
	maxSize := verifU64("maxSize")
	verifAssume(maxMsgs >= 1 && maxMsgs <= 1<<20)
	verifAssume(maxSize >= 1 && maxSize <= 1<<40)
	qfp, err := NewQuotaFloodPreventer(ArgQuotaFloodPreventer{
		Name: "x", Cacher: &verifCacher{}, StatusHandlers: nil,
		BaseMaxNumMessagesPerPeer: maxMsgs, MaxTotalSizePerPeer: maxSize,
		PercentReserved: verifPercents[verifChoice("percent", len(verifPercents))], IncreaseThreshold: 0, IncreaseFactor: 0,
	})
	verifAssert(err == nil, "constructor accepts")
	pid := core.PeerID("p")
	accepted := uint64(0)
	acceptedSize := uint64(0)
	first := uint64(0)
	for i := 0; i < verifParam("msgs"); i++ {
		sz := verifU64("size")
		verifAssume(sz <= 1<<32)
		if qfp.IncreaseLoad(pid, sz) == nil {
			if accepted == 0 {
				first = sz
			}
			accepted++
			acceptedSize += sz
		}
	}
	verifAssert(accepted >= 1, "at least one message accepted")
	verifAssert(accepted <= uint64(maxMsgs) || accepted == 1, "accepted count within the message quota")
	verifAssert(acceptedSize <= maxSize+first, "accepted bytes within the byte quota plus the first message")
	verifReach("end")
}
