package trie

import (
	"math/big"

	"github.com/ElrondNetwork/elrond-go/data"
	"github.com/ElrondNetwork/elrond-go/data/state"
	"github.com/ElrondNetwork/elrond-go/data/state/factory"
	"github.com/ElrondNetwork/elrond-go/hashing/blake2b"
	"github.com/ElrondNetwork/elrond-go/marshal"
)

type verifNoPruning struct{}

func (verifNoPruning) MarkForEviction([]byte, []byte, data.ModifiedHashes, data.ModifiedHashes) error {
	return nil
}
func (verifNoPruning) PruneTrie(rootHash []byte, identifier data.TriePruningIdentifier, tsm data.StorageManager) {
}
func (verifNoPruning) CancelPrune(rootHash []byte, identifier data.TriePruningIdentifier, tsm data.StorageManager) {
}
func (verifNoPruning) Close() error         { return nil }
func (verifNoPruning) IsInterfaceNil() bool { return false }

var verifAddrs = [][]byte{[]byte("aaaaaaaaaaaaaaaaaaaaaaaaaaaaaaaa"), []byte("bbbbbbbbbbbbbbbbbbbbbbbbbbbbbbbb")}
var verifCodes = [][]byte{[]byte("code-one"), []byte("code-two")}
var verifStoreKey = []byte("k")

func verifNewAccountsDB() *state.AccountsDB {
	tr, _ := verifNewTrieLevel(5)
	adb, err := state.NewAccountsDB(tr, blake2b.NewBlake2b(), &marshal.GogoProtoMarshalizer{}, factory.NewAccountCreator(), verifNoPruning{})
	verifAssert(err == nil, "accounts db created")
	return adb
}

// one symbolic operation on the accounts database, the way the transaction processors use it
// addresses removed (successfully) since the snapshot, and whether one of them was loaded and saved again
var verifRemovedSinceSnapshot = map[string]bool{}
var verifRecreatedAfterRemoval bool

func verifAccountsOp(adb *state.AccountsDB, tag string) {
	ai := verifChoice(tag+"account", len(verifAddrs))
	addr := verifAddrs[ai]
	op := verifChoice(tag+"op", 6)
	if tag == "post" && op != 5 && verifRemovedSinceSnapshot[string(addr)] {
		verifRecreatedAfterRemoval = true
	}
	if op == 5 {
		// a failing RemoveAccount (e.g. for an account whose data trie was changed and not yet committed) leaves
		// partial effects behind; its callers revert to the snapshot taken before the call
		before := adb.JournalLen()
		if adb.RemoveAccount(addr) != nil {
			verifAssert(adb.RevertToSnapshot(before) == nil, "revert of a failed removal")
		} else if tag == "post" {
			verifRemovedSinceSnapshot[string(addr)] = true
		}
		return
	}
	acc, err := adb.LoadAccount(addr)
	verifAssert(err == nil, "load account")
	ua := acc.(state.UserAccountHandler)
	switch op {
	case 0:
		_ = ua.AddToBalance(big.NewInt(int64(1 + verifChoice(tag+"amount", 2))))
	case 1:
		ua.IncreaseNonce(1)
		ua.SetOwnerAddress([]byte("owner"))
	case 2: // set code (new, shared with the other account, changed) and metadata
		ua.SetCode(verifCodes[verifChoice(tag+"code", len(verifCodes))])
		ua.SetCodeMetadata([]byte{1, byte(verifChoice(tag+"meta", 2))})
	case 3: // clear code
		ua.SetCode(nil)
	case 4: // storage write / delete
		vals := [][]byte{[]byte("v1"), []byte("v2"), nil}
		_ = ua.DataTrieTracker().SaveKeyValue(verifStoreKey, vals[verifChoice(tag+"value", len(vals))])
	}
	verifAssert(adb.SaveAccount(ua) == nil, "save account")
}

type verifAccountView struct {
	exists                          bool
	balance                         string
	nonce                           uint64
	owner, codeHash, code, meta, rh string
	stored                          string
}

func verifView(adb *state.AccountsDB) (string, []verifAccountView) {
	root, _ := adb.RootHash()
	var out []verifAccountView
	for _, addr := range verifAddrs {
		acc, err := adb.GetExistingAccount(addr)
		if err != nil || acc == nil {
			out = append(out, verifAccountView{})
			continue
		}
		ua := acc.(state.UserAccountHandler)
		stored, _ := ua.DataTrieTracker().RetrieveValue(verifStoreKey)
		out = append(out, verifAccountView{exists: true, balance: ua.GetBalance().String(), nonce: ua.GetNonce(), owner: string(ua.GetOwnerAddress()),
			codeHash: string(ua.GetCodeHash()), code: string(adb.GetCode(ua.GetCodeHash())), meta: string(ua.GetCodeMetadata()), rh: string(ua.GetRootHash()), stored: string(stored)})
	}
	return string(root), out
}

func verifSameView(r1 string, v1 []verifAccountView, r2 string, v2 []verifAccountView) bool {
	if r1 != r2 {
		return false
	}
	for i := range v1 {
		if v1[i] != v2[i] {
			return false
		}
	}
	return true
}

// C07 invariant: a code entry exists exactly when some account refers to it, with the right count.
func verifCodeRefs(adb *state.AccountsDB, when string) {
	h := blake2b.NewBlake2b()
	// the reference count itself is not readable through the API; a wrong count shows up as an entry that
	// disappears too early or survives too long along the explored sequences (shared code, clear, remove, revert)
	for _, code := range verifCodes {
		codeHash := h.Compute(string(code))
		refs := 0
		for _, addr := range verifAddrs {
			acc, err := adb.GetExistingAccount(addr)
			if err == nil && acc != nil && string(acc.(state.UserAccountHandler).GetCodeHash()) == string(codeHash) {
				refs++
			}
		}
		stored := adb.GetCode(codeHash)
		verifAssert((len(stored) > 0) == (refs > 0), "a code entry exists exactly when at least one account refers to it")
		if refs > 0 {
			verifAssert(string(stored) == string(code), "the stored code is the deployed code")
		}
	}
}

// C06 + C07: prefix of operations, snapshot, further operations, revert; optionally a commit first.
func Verif_C06_revert() {
	verifRemovedSinceSnapshot = map[string]bool{}
	verifRecreatedAfterRemoval = false
	adb := verifNewAccountsDB()
	if verifParam("preset") == 1 {
		// fixed start: both accounts deployed with the same code, the first one with a stored value, all committed
		for i, addr := range verifAddrs {
			acc, _ := adb.LoadAccount(addr)
			ua := acc.(state.UserAccountHandler)
			ua.SetCode(verifCodes[0])
			_ = ua.AddToBalance(big.NewInt(10))
			if i == 0 {
				_ = ua.DataTrieTracker().SaveKeyValue(verifStoreKey, []byte("v1"))
			}
			verifAssert(adb.SaveAccount(ua) == nil, "preset save")
		}
		_, err := adb.Commit()
		verifAssert(err == nil, "preset commit")
		verifCodeRefs(adb, "preset")
	}
	for i := 0; i < verifParam("before"); i++ {
		verifAccountsOp(adb, "pre")
		verifCodeRefs(adb, "prefix")
	}
	if verifBool("commitBeforeSnapshot") {
		_, err := adb.Commit()
		verifAssert(err == nil, "commit")
		verifAssert(adb.JournalLen() == 0, "journal empty after commit")
	}
	snapshot := adb.JournalLen()
	r0, v0 := verifView(adb)
	for i := 0; i < verifParam("after"); i++ {
		verifAccountsOp(adb, "post")
		verifCodeRefs(adb, "after snapshot")
	}
	verifAssert(adb.RevertToSnapshot(snapshot) == nil, "revert ok")
	// known finding: an account removed after the snapshot and then loaded and saved again (a fresh account under
	// the same address) leaves its new, empty data trie in the data-trie cache; after the revert the restored
	// account is served that cached trie, so its storage reads as empty until the next commit
	verifKnown("C06-data-trie-cache-after-remove-and-recreate", verifRecreatedAfterRemoval)
	r1, v1 := verifView(adb)
	verifAssert(verifSameView(r0, v0, r1, v1), "revert restores root, balances, nonces, owners, code, metadata and storage")
	verifCodeRefs(adb, "after revert")
	verifReach("end")
}

// The smallest history of the known finding C06-data-trie-cache-after-remove-and-recreate (so that the quick
// tier re-establishes it too): both accounts deployed and committed, the second one removed, snapshot, the
// first one (which has storage) removed and a fresh account saved under its address, revert.
func Verif_C06_knownStaleDataTrieCache() {
	adb := verifNewAccountsDB()
	for i, addr := range verifAddrs {
		acc, _ := adb.LoadAccount(addr)
		ua := acc.(state.UserAccountHandler)
		ua.SetCode(verifCodes[0])
		_ = ua.AddToBalance(big.NewInt(10))
		if i == 0 {
			_ = ua.DataTrieTracker().SaveKeyValue(verifStoreKey, []byte("v1"))
		}
		verifAssert(adb.SaveAccount(ua) == nil, "preset save")
	}
	_, err := adb.Commit()
	verifAssert(err == nil, "preset commit")
	verifAssert(adb.RemoveAccount(verifAddrs[1]) == nil, "second account removed")
	snapshot := adb.JournalLen()
	r0, v0 := verifView(adb)
	verifAssert(adb.RemoveAccount(verifAddrs[0]) == nil, "first account removed")
	acc, _ := adb.LoadAccount(verifAddrs[0])
	ua := acc.(state.UserAccountHandler)
	vals := [][]byte{[]byte("v2"), nil}
	_ = ua.DataTrieTracker().SaveKeyValue(verifStoreKey, vals[verifChoice("value", len(vals))])
	verifAssert(adb.SaveAccount(ua) == nil, "fresh account saved under the same address")
	verifAssert(adb.RevertToSnapshot(snapshot) == nil, "revert ok")
	verifReach("end")
	verifKnown("C06-data-trie-cache-after-remove-and-recreate", true)
	r1, v1 := verifView(adb)
	verifAssert(verifSameView(r0, v0, r1, v1), "revert restores root, balances, nonces, owners, code, metadata and storage")
}
