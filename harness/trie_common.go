package trie

import (
	"bytes"
	"errors"

	"github.com/ElrondNetwork/elrond-go/core"
	"github.com/ElrondNetwork/elrond-go/data"
	"github.com/ElrondNetwork/elrond-go/hashing/blake2b"
	"github.com/ElrondNetwork/elrond-go/marshal"
)

// in-memory DB stub (data.DBWriteCacher): an append-only list that is scanned on reads, so that a
// Put with a symbolic (hash) key never forks the path; only reads compare keys.
type verifDB struct {
	keys [][]byte
	vals [][]byte
	dead []bool
	puts int
}

func (d *verifDB) Put(key, val []byte) error {
	d.keys = append(d.keys, key)
	d.vals = append(d.vals, val)
	d.dead = append(d.dead, false)
	d.puts++
	return nil
}
func (d *verifDB) Get(key []byte) ([]byte, error) {
	for i := len(d.keys) - 1; i >= 0; i-- {
		if eqBytes(d.keys[i], key) {
			if d.dead[i] {
				break
			}
			return d.vals[i], nil
		}
	}
	return nil, errors.New("not found")
}
func (d *verifDB) Remove(key []byte) error {
	for i := range d.keys {
		if eqBytes(d.keys[i], key) {
			d.dead[i] = true
		}
	}
	return nil
}
func (d *verifDB) Close() error         { return nil }
func (d *verifDB) IsInterfaceNil() bool { return d == nil }

type verifTSM struct{ db *verifDB }

func (t *verifTSM) Database() data.DBWriteCacher                                      { return t.db }
func (t *verifTSM) TakeSnapshot([]byte, bool, chan core.KeyValueHolder)                {}
func (t *verifTSM) SetCheckpoint([]byte, chan core.KeyValueHolder)                     {}
func (t *verifTSM) GetSnapshotThatContainsHash(rootHash []byte) data.SnapshotDbHandler { return nil }
func (t *verifTSM) IsPruningEnabled() bool                                             { return false }
func (t *verifTSM) IsPruningBlocked() bool                                             { return false }
func (t *verifTSM) EnterPruningBufferingMode()                                         {}
func (t *verifTSM) ExitPruningBufferingMode()                                          {}
func (t *verifTSM) GetSnapshotDbBatchDelay() int                                       { return 0 }
func (t *verifTSM) AddDirtyCheckpointHashes([]byte, data.ModifiedHashes) bool          { return false }
func (t *verifTSM) Remove(hash []byte) error                                           { return t.db.Remove(hash) }
func (t *verifTSM) Close() error                                                       { return nil }
func (t *verifTSM) IsInterfaceNil() bool                                               { return t == nil }

func verifNewTrieLevel(level uint) (*patriciaMerkleTrie, *verifDB) {
	db := &verifDB{}
	tr, _ := NewTrie(&verifTSM{db: db}, &marshal.GogoProtoMarshalizer{}, blake2b.NewBlake2b(), level)
	return tr, db
}

func verifNewTrie() *patriciaMerkleTrie {
	tr, _ := verifNewTrieLevel(5)
	return tr
}

func eqBytes(a, b []byte) bool { return bytes.Equal(a, b) } // engine intrinsic: one term, no per-byte branching

// verifKey: symbolic key of n bytes whose nibbles range over a bounded alphabet (parameter "alpha":
// 2 -> {0,1}; 3 -> {0,1,15}; 16 -> all nibbles). The trie indexes children by nibble and treats all
// nibble values alike, so the alphabet bounds the number of slot combinations that full scans of a
// branch node's 17 children enumerate, not the relations between keys (equal, shared prefix, disjoint).
func verifKey(name string, n int) []byte {
	k := verifBytes(name, n)
	alpha := verifParam("alpha")
	okNib := func(x byte) bool {
		switch alpha {
		case 2:
			return x <= 1
		case 3:
			return x <= 1 || x == 15
		}
		return true
	}
	for i := range k {
		verifAssume(okNib(k[i]>>4) && okNib(k[i]&15))
	}
	return k
}
