package preprocess

import (
	"github.com/ElrondNetwork/elrond-go/data/block"
	"github.com/ElrondNetwork/elrond-go/marshal"
)

type verifFixedThrottler struct{ max uint32 }

func (t verifFixedThrottler) GetCurrentMaxSize() uint32 { return t.max }
func (t verifFixedThrottler) IsInterfaceNil() bool       { return false }

const verifC33MaxSize = 943718                 // BlockSizeThrottleConfig.MaxSizeInBytes of the shipped configuration (90% of 1 MiB)
const verifC33NetworkLimit = (1 << 20) - 64*1024 // p2p/libp2p maxSendBuffSize

// worst-case identifiers: 5-byte varints for the shard ids, 2-byte varint for the type
func verifC33WorstMb(ntx int) *block.MiniBlock {
	mb := &block.MiniBlock{ReceiverShardID: 4294967295, SenderShardID: 4294967280, Type: 255}
	for i := 0; i < ntx; i++ {
		mb.TxHashes = append(mb.TxHashes, make([]byte, 32))
	}
	return mb
}

// Step 1 (real encoder, symbolic ids): no miniblock with up to 3 tx hashes encodes longer than the
// worst-case miniblock with the same number of hashes, and each further hash costs the same 34 bytes.
func Verif_C33_worstCaseEncoding() {
	m := &marshal.GogoProtoMarshalizer{}
	ntx := verifChoice("ntx", 4)
	mb := &block.MiniBlock{ReceiverShardID: verifU32("rcv"), SenderShardID: verifU32("snd"), Type: block.Type(verifU8("type"))}
	for i := 0; i < ntx; i++ {
		mb.TxHashes = append(mb.TxHashes, verifBytes("h", 32))
	}
	b1, err1 := m.Marshal(&block.Body{MiniBlocks: []*block.MiniBlock{mb}})
	b2, err2 := m.Marshal(&block.Body{MiniBlocks: []*block.MiniBlock{verifC33WorstMb(ntx)}})
	verifAssert(err1 == nil && err2 == nil, "marshal ok")
	verifAssert(len(b1) <= len(b2), "no identifiers encode longer than the worst-case ones")
	b0, _ := m.Marshal(&block.Body{MiniBlocks: []*block.MiniBlock{verifC33WorstMb(0)}})
	verifAssert(len(b2) == len(b0)+34*ntx || ntx > 3, "each tx hash costs 34 bytes (below the next length-prefix step)")
	verifReach("end")
}

// Step 2: whenever the real estimate (real precomputed constants, real isMaxBlockSize...Reached) says
// that m miniblocks with t hashes in total fit, the worst-case encoding stays within the network limit.
// Symbolically the encoded size is the arithmetic extrapolation of step 1; in the native replay the
// body is really built and marshaled.
func Verif_C33_estimateVsActual() {
	m := &marshal.GogoProtoMarshalizer{}
	bsc, err := NewBlockSizeComputation(m, verifFixedThrottler{verifC33MaxSize}, verifC33MaxSize)
	verifAssert(err == nil, "block size computation created")
	nmb := verifU32("miniblocks")
	ntx := verifU32("txs")
	verifAssume(nmb >= 1 && nmb <= uint32(verifParam("maxMiniblocks")) && ntx <= 1<<20 && ntx >= nmb)
	// the way the block builders ask: part of the body is already accumulated, the rest is "new" (possibly nothing)
	accMb, accTx := verifU32("accumulatedMiniblocks"), verifU32("accumulatedTxs")
	verifAssume(accMb <= nmb && accTx <= ntx)
	bsc.Init()
	bsc.AddNumMiniBlocks(int(accMb))
	bsc.AddNumTxs(int(accTx))
	// either of the two estimate queries, each on its own, must be safe
	reached := false
	if verifBool("throttledQuery") {
		reached = bsc.IsMaxBlockSizeReached(int(nmb-accMb), int(ntx-accTx))
	} else {
		reached = bsc.IsMaxBlockSizeWithoutThrottleReached(int(nmb-accMb), int(ntx-accTx))
	}
	if reached {
		verifReach("estimate says too big")
		return
	}
	// known finding C33-many-miniblocks: the calibration (shard id 999, type 0) undershoots by ~10 bytes per miniblock
	verifKnown("C33-many-miniblocks", nmb > 3000)
	var actual uint64
	if verifIsReplay() {
		body := &block.Body{}
		per := int(ntx / nmb)
		for i := uint32(0); i < nmb; i++ {
			k := per
			if i == 0 {
				k += int(ntx % nmb)
			}
			body.MiniBlocks = append(body.MiniBlocks, verifC33WorstMb(k))
		}
		buff, _ := m.Marshal(body)
		actual = uint64(len(buff))
	} else {
		// the same body as the replay builds, sized arithmetically from step 1: a miniblock with k hashes has
		// content c = base + 34k and costs 1 (tag) + varint length of c + c
		b0, _ := m.Marshal(&block.Body{MiniBlocks: []*block.MiniBlock{verifC33WorstMb(0)}})
		base := uint64(len(b0) - 2)
		size := func(k uint64) uint64 {
			c := base + 34*k
			if c < 128 {
				return 2 + c
			}
			if c < 16384 {
				return 3 + c
			}
			return 4 + c
		}
		per := uint64(ntx / nmb)
		rem := uint64(ntx % nmb)
		actual = size(per+rem) + uint64(nmb-1)*size(per)
	}
	verifAssert(actual <= verifC33NetworkLimit, "a body the estimate accepts fits the network message limit")
	verifReach("estimate says it fits")
}
