package sharding

import (
	"github.com/ElrondNetwork/elrond-go/core"
	"github.com/ElrondNetwork/elrond-go/data/state"
	"github.com/ElrondNetwork/elrond-go/hashing/sha256"
)

type verifC16NodeType struct{}

func (verifC16NodeType) SetType(nodeType core.NodeType) {}
func (verifC16NodeType) GetType() core.NodeType         { return core.NodeTypeObserver }
func (verifC16NodeType) IsInterfaceNil() bool           { return false }

// The epoch preparation from the decoded validator infos on: computeNodesConfigFromList, the real
// shuffler, createActuallyLeavingPerShards, setNodesPerShards, fillPublicKeyToValidatorMap (the glue
// between them is restated from EpochStartPrepare). Validator infos are consistent with the previous
// epoch: every validator of the previous lists is reported in its shard, in its list or as leaving.
func Verif_C16_onePlace() {
	prevElig := map[uint32][]Validator{0: {verifVal("a"), verifVal("b")}, core.MetachainShardId: {verifVal("d"), verifVal("e")}}
	prevWait := map[uint32][]Validator{0: {verifVal("c")}, core.MetachainShardId: {verifVal("f")}}
	ihgs := &indexHashedNodesCoordinator{shardConsensusGroupSize: 1, metaConsensusGroupSize: 1, hasher: sha256.NewSha256(), selfPubKey: []byte("self"),
		nodeTypeProvider: verifC16NodeType{}, currentEpoch: 1,
		nodesConfig: map[uint32]*epochNodesConfig{1: {nbShards: 1, eligibleMap: prevElig, waitingMap: prevWait}}}
	ihgs.nodesCoordinatorHelper = ihgs
	if verifBool("waitingListFix") {
		ihgs.flagWaitingListFix.Set()
	}
	shuffler := &randHashShuffler{nodesShard: 2, nodesMeta: 2, validatorDistributor: &CrossShardValidatorDistributor{}, shuffleBetweenShards: true}
	if !ihgs.flagWaitingListFix.IsSet() {
		shuffler.waitingListFixEnableEpoch = 100
	}
	ihgs.shuffler = shuffler

	var infos []*state.ShardValidatorInfo
	add := func(m map[uint32][]Validator, list core.PeerType) {
		for _, shard := range []uint32{0, core.MetachainShardId} {
			for _, v := range m[shard] {
				l := string(list)
				if verifBool("leaving_" + string(v.PubKey())) {
					l = string(core.LeavingList)
				}
				infos = append(infos, &state.ShardValidatorInfo{PublicKey: v.PubKey(), ShardId: shard, List: l, TempRating: 50})
			}
		}
	}
	add(prevElig, core.EligibleList)
	add(prevWait, core.WaitingList)
	if verifBool("newNode") {
		infos = append(infos, &state.ShardValidatorInfo{PublicKey: []byte("g"), ShardId: 0, List: string(core.NewList), TempRating: 50})
	}

	copiedPrevious := &epochNodesConfig{eligibleMap: copyValidatorMap(prevElig), waitingMap: copyValidatorMap(prevWait), nbShards: 1}
	newCfg, err := ihgs.computeNodesConfigFromList(copiedPrevious, infos)
	verifAssert(err == nil, "nodes config computed from the validator infos")
	additional, _ := ihgs.nodesCoordinatorHelper.ComputeAdditionalLeaving(infos)
	res, err := ihgs.shuffler.UpdateNodeLists(ArgsUpdateNodes{Eligible: newCfg.eligibleMap, Waiting: newCfg.waitingMap, NewNodes: newCfg.newList,
		UnStakeLeaving: ihgs.createSortedListFromMap(newCfg.leavingMap), AdditionalLeaving: ihgs.createSortedListFromMap(additional),
		Rand: []byte("rnd"), NbShards: newCfg.nbShards, Epoch: 2})
	if err != nil {
		verifReach("shuffler rejected")
		return
	}
	leavingMap, _ := createActuallyLeavingPerShards(newCfg.leavingMap, additional, res.Leaving)
	if ihgs.setNodesPerShards(res.Eligible, res.Waiting, leavingMap, 2) != nil {
		verifReach("too few validators left")
		return
	}
	ihgs.fillPublicKeyToValidatorMap()

	cfg := ihgs.nodesConfig[2]
	for _, name := range []string{"a", "b", "c", "d", "e", "f", "g"} {
		pk := []byte(name)
		places := 0
		shardOf := uint32(0)
		for _, shard := range []uint32{0, core.MetachainShardId} {
			ne := verifHasKey(cfg.eligibleMap[shard], verifVal(name))
			nw := verifHasKey(cfg.waitingMap[shard], verifVal(name))
			places += ne + nw
			if ne+nw > 0 {
				shardOf = shard
			}
		}
		verifAssert(places <= 1, "a public key has at most one place (one shard, eligible or waiting) in the new epoch")
		if places == 1 {
			_, s, err := ihgs.GetValidatorWithPublicKey(pk)
			verifAssert(err == nil && s == shardOf, "lookup by public key reports the shard the validator is in")
		}
	}
	verifReach("prepared")
}
