package partitioning

import (
	"github.com/ElrondNetwork/elrond-go/data/batch"
	"github.com/ElrondNetwork/elrond-go/marshal"
)


func Verif_C32_sizePacker() {
	m := &marshal.GogoProtoMarshalizer{}
	sdp, _ := NewSizeDataPacker(m)
	k := verifChoice("k", 4) // 0..3 elements
	data := make([][]byte, k)
	for i := range data {
		data[i] = verifBytes("el", verifChoice("len", 4))
	}
	limit := 1 + verifChoice("limit", 10)
	chunks, err := sdp.PackDataInChunks(data, limit)
	verifAssert(err == nil, "no error")
	var got [][]byte
	for _, c := range chunks {
		b := &batch.Batch{}
		errU := m.Unmarshal(b, c)
		verifAssert(errU == nil, "chunk unmarshals")
		verifAssert(len(b.Data) == 1 || len(c) < limit, "chunk below limit unless single element")
		got = append(got, b.Data...)
	}
	verifAssert(len(got) == len(data), "same number of elements")
	if len(got) == len(data) {
		for i := range data {
			verifAssert(len(got[i]) == len(data[i]), "same element length")
			if len(got[i]) == len(data[i]) {
				for j := range data[i] {
					verifAssert(got[i][j] == data[i][j], "same element bytes")
				}
			}
		}
	}
	verifReach("end")
}
