package partitioning

import (
	"github.com/ElrondNetwork/elrond-go/data/batch"
	"github.com/ElrondNetwork/elrond-go/marshal"
)


func Verif_C32_sizePacker() {
	m := &marshal.GogoProtoMarshalizer{}
	sdp, _ := NewSizeDataPacker(m)
	k := verifChoice("k", 4) // 0..3 elements
	data := make([][]byte, k)
	for i := range data {
		data[i] = verifBytes("el", verifChoice("len", 4))
	}
	limit := 1 + verifChoice("limit", 10)
	chunks, err := sdp.PackDataInChunks(data, limit)
	verifAssert(err == nil, "no error")
	var got [][]byte
	for _, c := range chunks {
		b := &batch.Batch{}
		errU := m.Unmarshal(b, c)
		verifAssert(errU == nil, "chunk unmarshals")
		verifAssert(len(b.Data) == 1 || len(c) < limit, "chunk below limit unless single element")
		got = append(got, b.Data...)
	}
	verifAssert(len(got) == len(data), "same number of elements")
	if len(got) == len(data) {
		for i := range data {
			verifAssert(len(got[i]) == len(data[i]), "same element length")
			if len(got[i]) == len(data[i]) {
				for j := range data[i] {
					verifAssert(got[i][j] == data[i][j], "same element bytes")
				}
			}
		}
	}
	verifReach("end")
}

func verifC32Elements() [][]byte {
	k := verifChoice("k", verifParam("maxElements")+1)
	data := make([][]byte, k)
	for i := range data {
		data[i] = verifBytes("el", verifChoice("len", 4)) // lengths 0..3, the empty string included
	}
	return data
}

func verifC32SameLists(got, data [][]byte) {
	verifAssert(len(got) == len(data), "same number of elements")
	if len(got) == len(data) {
		for i := range data {
			verifAssert(len(got[i]) == len(data[i]), "same element length")
			if len(got[i]) == len(data[i]) {
				for j := range data[i] {
					verifAssert(got[i][j] == data[i][j], "same element bytes")
				}
			}
		}
	}
}

// SimpleDataPacker: its size notion is the payload sum of a chunk.
func Verif_C32_simplePacker() {
	m := &marshal.GogoProtoMarshalizer{}
	sdp, _ := NewSimpleDataPacker(m)
	data := verifC32Elements()
	limit := 1 + verifChoice("limit", 8)
	chunks, err := sdp.PackDataInChunks(data, limit)
	verifAssert(err == nil, "no error")
	var got [][]byte
	for _, c := range chunks {
		b := &batch.Batch{}
		verifAssert(m.Unmarshal(b, c) == nil, "chunk unmarshals")
		verifAssert(len(b.Data) > 0, "no empty chunk")
		payload := 0
		for _, e := range b.Data {
			payload += len(e)
		}
		verifAssert(len(b.Data) == 1 || payload < limit, "chunk payload below the limit unless it holds a single element")
		got = append(got, b.Data...)
	}
	verifC32SameLists(got, data)
	verifReach("end")
}

// DataSplit: chunks are lists of elements.
func Verif_C32_dataSplit() {
	ds := &DataSplit{}
	data := verifC32Elements()
	limit := 1 + verifChoice("limit", 8)
	chunks, err := ds.SplitDataInChunks(data, limit)
	verifAssert(err == nil, "no error")
	var got [][]byte
	for _, c := range chunks {
		verifAssert(len(c) > 0, "no empty chunk")
		verifAssert(len(c) <= limit, "at most the configured number of elements per chunk") // DataSplit's limit counts elements
		got = append(got, c...)
	}
	verifC32SameLists(got, data)
	verifReach("end")
}
