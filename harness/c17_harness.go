package headerCheck

import (
	"math/bits"

	"github.com/ElrondNetwork/elrond-go/data"
	"github.com/ElrondNetwork/elrond-go/data/block"
)

type verifNoFallback struct{}

func (*verifNoFallback) ShouldApplyFallbackValidation(data.HeaderHandler) bool { return false }
func (*verifNoFallback) IsInterfaceNil() bool                                  { return false }

func Verif_C17_quorum() {
	// group sizes: every size up to maxSmall, and larger ones around the byte/word boundaries of the bitmap
	large := []int{57, 63, 64, 65, 100, 127, 128, 129, 400}
	if verifParam("largeSet") == 0 {
		large = []int{57, 64, 65, 128}
	}
	small := verifParam("maxSmall")
	k := verifChoice("n", small+len(large))
	n := k + 1
	if k >= small {
		n = large[k-small]
	}
	keys := make([]string, n)
	for i := range keys {
		keys[i] = string(rune('a' + i))
	}
	bitmap := verifBytes("bitmap", (n+7)/8)
	// known finding C17-padding-bits: bits beyond the group size are counted by verifyConsensusSize
	verifKnown("C17-padding-bits", n%8 != 0 && bitmap[len(bitmap)-1]>>uint(n%8) != 0)
	hsv := &HeaderSigVerifier{fallbackHeaderValidator: &verifNoFallback{}}
	err := hsv.verifyConsensusSize(keys, &block.Header{PubKeysBitmap: bitmap})
	if err == nil {
		real := 0
		if n <= 16 {
			for i := 0; i < n; i++ { // independent bit-by-bit count
				if bitmap[i/8]&(1<<uint(i%8)) != 0 {
					real++
				}
			}
		} else {
			// large groups: whole bytes are counted with the library population count (a bit-by-bit count of 400
			// symbolic bits against it is beyond the solver), the bits of the last, partial byte one by one
			for i := 0; i < n/8; i++ {
				real += bits.OnesCount8(bitmap[i])
			}
			for i := n / 8 * 8; i < n; i++ {
				if bitmap[i/8]&(1<<uint(i%8)) != 0 {
					real++
				}
			}
		}
		verifAssert(real >= n*2/3+1, "accepted with fewer real signers than the threshold")
		verifReach("accepted")
	} else {
		verifReach("rejected")
	}
}
