package trie

import (
	"sync"
	"time"

	"github.com/ElrondNetwork/elrond-go/core"
	"github.com/ElrondNetwork/elrond-go/data"
	"github.com/ElrondNetwork/elrond-go/data/state"
	"github.com/ElrondNetwork/elrond-go/data/trie/hashesHolder"
	"github.com/ElrondNetwork/elrond-go/hashing/blake2b"
	"github.com/ElrondNetwork/elrond-go/marshal"
)

// Storage manager with snapshots in memory. The real trieStorageManager keeps its snapshots in LevelDB files
// and serves the requests from a goroutine; here the request is served when it is made, by the same steps as
// trieStorageManager.takeSnapshot: already present in the last snapshot? -> snapshot root node from the main
// database -> target database (new or last) -> the REAL commitSnapshot / commitCheckpoint of the node types,
// with the REAL checkpoint hashes holder. The blocking counter is the real protocol (enter at request, exit
// when done).
type verifSnapshotTSM struct {
	verifTSM
	mut         sync.Mutex
	blockingOps int
	snapshots   []*verifDB
	holder      data.CheckpointHashesHolder
}

func (t *verifSnapshotTSM) IsPruningEnabled() bool { return true }
func (t *verifSnapshotTSM) IsPruningBlocked() bool {
	t.mut.Lock()
	defer t.mut.Unlock()
	return t.blockingOps > 0
}
func (t *verifSnapshotTSM) EnterPruningBufferingMode() {
	t.mut.Lock()
	t.blockingOps++
	t.mut.Unlock()
}
func (t *verifSnapshotTSM) ExitPruningBufferingMode() {
	t.mut.Lock()
	if t.blockingOps > 0 {
		t.blockingOps--
	}
	t.mut.Unlock()
}
func (t *verifSnapshotTSM) AddDirtyCheckpointHashes(rootHash []byte, hashes data.ModifiedHashes) bool {
	return t.holder.Put(rootHash, hashes)
}

func (t *verifSnapshotTSM) serve(rootHash []byte, newDb bool, isSnapshot bool, leavesChan chan core.KeyValueHolder) {
	defer func() {
		t.ExitPruningBufferingMode()
		if leavesChan != nil {
			close(leavesChan)
		}
	}()
	t.mut.Lock()
	if n := len(t.snapshots); n > 0 {
		if v, err := t.snapshots[n-1].Get(rootHash); err == nil && v != nil {
			t.mut.Unlock()
			return // snapshot for this root already taken
		}
	}
	t.mut.Unlock()
	newRoot, err := newSnapshotNode(t.db, &marshal.GogoProtoMarshalizer{}, blake2b.NewBlake2b(), rootHash)
	if err != nil {
		return
	}
	t.mut.Lock()
	if newDb || len(t.snapshots) == 0 {
		t.snapshots = append(t.snapshots, &verifDB{})
	}
	target := t.snapshots[len(t.snapshots)-1]
	t.mut.Unlock()
	if isSnapshot {
		_ = newRoot.commitSnapshot(t.db, target, leavesChan)
		return
	}
	_ = newRoot.commitCheckpoint(t.db, target, t.holder, leavesChan)
}

func (t *verifSnapshotTSM) TakeSnapshot(rootHash []byte, newDb bool, leavesChan chan core.KeyValueHolder) {
	if eqBytes(rootHash, EmptyTrieHash) {
		return
	}
	t.EnterPruningBufferingMode()
	t.holder.RemoveCommitted(rootHash)
	t.serve(rootHash, newDb, true, leavesChan)
}

func (t *verifSnapshotTSM) SetCheckpoint(rootHash []byte, leavesChan chan core.KeyValueHolder) {
	if eqBytes(rootHash, EmptyTrieHash) {
		return
	}
	t.EnterPruningBufferingMode()
	t.serve(rootHash, false, false, leavesChan)
}

// the state of a block can be read completely from the LAST snapshot database alone
func verifC10CheckSnapshot(t *verifSnapshotTSM, b verifC09Block, what string) {
	verifAssert(len(t.snapshots) > 0, what+": a snapshot database exists")
	if len(t.snapshots) == 0 {
		return
	}
	snap := t.snapshots[len(t.snapshots)-1]
	tr, _ := NewTrie(&verifTSM{db: snap}, &marshal.GogoProtoMarshalizer{}, blake2b.NewBlake2b(), 5)
	adb, err := state.NewAccountsDB(tr, blake2b.NewBlake2b(), &marshal.GogoProtoMarshalizer{}, verifAccountCreator(), verifNoPruning{})
	verifAssert(err == nil, "accounts db over the snapshot")
	errRec := adb.RecreateTrie(b.root)
	verifAssert(errRec == nil, what+": the root can be recreated from the snapshot alone")
	if errRec != nil {
		return
	}
	for i := 0; i < 2; i++ {
		acc, errGet := adb.GetExistingAccount(verifAddrs[i])
		verifAssert(errGet == nil && acc != nil, what+": every account can be read from the snapshot alone")
		if errGet != nil || acc == nil {
			continue
		}
		ua := acc.(state.UserAccountHandler)
		verifAssert(ua.GetBalance().Cmp(b.balances[i]) == 0, what+": the account holds what it held at that root")
		val, errVal := ua.DataTrieTracker().RetrieveValue(verifStoreKey)
		if b.stored[i] == 0 {
			verifAssert(len(val) == 0, what+": nothing is stored under the key at that root")
		} else {
			verifAssert(errVal == nil && len(val) == 2 && val[1] == b.stored[i], what+": the data trie of the account can be read from the snapshot alone")
		}
	}
}

// A snapshot (or, after a first snapshot, a checkpoint) of the tip is requested through the real
// AccountsDB.SnapshotState / SetStateCheckpoint; before the snapshot goroutine gets to run, 2 more operations
// happen (commit of a block with a symbolic balance, finalization, rollback): pruning is buffered meanwhile.
// When the goroutine has run, the state of the requested root - main trie and the data trie of the account
// that has one - can be read from the snapshot database alone, and the live roots are intact.
func Verif_C10_snapshotWhileCommitting() {
	db := &verifDB{}
	tsm := &verifSnapshotTSM{verifTSM: verifTSM{db: db}, holder: hashesHolder.NewCheckpointHashesHolder(10000000, 32)}
	c := verifC09NewWith(tsm, db)
	useCheckpoint := verifBool("checkpoint")
	if useCheckpoint {
		// a checkpoint adds to an existing snapshot: take a complete snapshot of the current tip first, then move on
		c.adb.SnapshotState(c.tip().root)
		time.Sleep(time.Millisecond) // let the snapshot goroutine finish
		for i := 0; i < 200 && tsm.IsPruningBlocked(); i++ {
			time.Sleep(5 * time.Millisecond)
		}
		verifC10CheckSnapshot(tsm, c.tip(), "first snapshot")
		c.commitBlock("b")
	}
	wanted := c.tip()
	if useCheckpoint {
		c.adb.SetStateCheckpoint(wanted.root)
	} else {
		c.adb.SnapshotState(wanted.root)
	}
	// the chain moves on before the snapshot goroutine runs
	for i := 0; i < verifParam("ops"); i++ {
		switch verifChoice("op"+string(rune('0'+i)), 3) {
		case 0:
			c.commitBlock("c")
			// a block that brings back exactly the root of an earlier block is C09's known finding: not repeated here
			tip := c.tip().root
			verifAssume(!eqBytes(tip, c.final.root))
			for j := 0; j+1 < len(c.pending); j++ {
				verifAssume(!eqBytes(tip, c.pending[j].root))
			}
		case 1:
			c.finalizeOldest()
		case 2:
			c.rollbackNewest()
		}
	}
	for i := 0; i < 200 && (i == 0 || tsm.IsPruningBlocked()); i++ {
		time.Sleep(5 * time.Millisecond)
	}
	verifAssert(!tsm.IsPruningBlocked(), "pruning is unblocked once the snapshot is done")
	verifC10CheckSnapshot(tsm, wanted, "snapshot")
	c.checkLive("after the snapshot")
	// afterwards a checkpoint of the current tip: the snapshot database (snapshot + what was committed since) holds it
	tip := c.tip()
	c.adb.SetStateCheckpoint(tip.root)
	for i := 0; i < 200 && (i == 0 || tsm.IsPruningBlocked()); i++ {
		time.Sleep(5 * time.Millisecond)
	}
	verifC10CheckSnapshot(tsm, tip, "later checkpoint of the tip")
	verifReach("end")
}
