package sharding

import "github.com/ElrondNetwork/elrond-go/core"

func verifC11N(tag string) uint32 {
	lo, hi := verifParam("nLo"), verifParam("nHi")
	extra := []uint32{255, 256, 257, 511, 512, 513, 4095, 4096, 4097, 65535, 65536, 65537, 16777215, 16777216, 16777217, 1 << 31, 4294967295}
	k := verifChoice(tag, hi-lo+1+len(extra)*verifParam("extra"))
	if k <= hi-lo {
		return uint32(lo + k)
	}
	return extra[k-(hi-lo+1)]
}

// (i) real constructor and mask computation for enumerated shard counts; symbolic addresses.
func Verif_C11_enumeratedShards() {
	n := verifC11N("n")
	msc, err := NewMultiShardCoordinator(n, 0)
	verifAssert(err == nil, "coordinator created")
	// the mask contract the symbolic-n harness relies on
	mh, ml := msc.maskHigh, msc.maskLow
	verifAssert(mh&(mh+1) == 0, "maskHigh+1 is a power of two")
	verifAssert(uint64(mh)+1 >= uint64(n), "maskHigh+1 >= number of shards")
	verifAssert(n == 1 || (uint64(mh)+1)/2 < uint64(n), "maskHigh+1 is the least such power of two")
	verifAssert(n == 1 || ml == mh>>1, "maskLow is maskHigh shifted right")
	la := verifParam("addrLen")
	a := verifBytes("a", la)
	b := verifBytes("b", la)
	ida := msc.ComputeId(a)
	idb := msc.ComputeId(b)
	verifAssert(ida < n || ida == core.MetachainShardId, "shard id is a configured shard or the metachain")
	if ida == core.MetachainShardId {
		verifAssert(core.IsSmartContractAddress(a), "metachain only for smart contract addresses")
		verifAssert(len(a) > core.NumInitCharactersForScAddress+2 && a[core.NumInitCharactersForScAddress] == 0 && a[core.NumInitCharactersForScAddress+1] == 0, "metachain only for metachain system contract addresses")
	}
	verifAssert(msc.ComputeId(a) == ida, "deterministic")
	verifAssert(msc.SameShard(a, b) == (ida == idb), "SameShard agrees with the computed shards")
	verifReach("end")
}

// (ii) every shard count at once: symbolic n with masks constrained by the contract that (i) checks
// for the enumerated counts.
func Verif_C11_symbolicShards() {
	n := verifU32("n")
	mh := verifU32("maskHigh")
	verifAssume(n >= 2)
	verifAssume(mh&(mh+1) == 0 && uint64(mh)+1 >= uint64(n) && (uint64(mh)+1)/2 < uint64(n))
	msc := &multiShardCoordinator{numberOfShards: n, maskHigh: mh, maskLow: mh >> 1}
	la := verifParam("addrLen")
	a := verifBytes("a", la)
	b := verifBytes("b", la)
	ida := msc.ComputeId(a)
	idb := msc.ComputeId(b)
	verifAssert(ida < n || ida == core.MetachainShardId, "shard id is a configured shard or the metachain")
	if ida == core.MetachainShardId {
		verifAssert(core.IsSmartContractAddress(a), "metachain only for smart contract addresses")
	}
	verifAssert(msc.SameShard(a, b) == (ida == idb), "SameShard agrees with the computed shards")
	verifReach("end")
}

func verifC11Shard(tag string) uint32 {
	switch verifChoice(tag+"kind", 3) {
	case 0:
		return core.MetachainShardId
	case 1:
		return core.AllShardId
	}
	s := verifU32(tag)
	verifAssume(s < uint32(verifParam("maxShard")))
	return s
}

// (iii) cross-shard topic identifiers: symmetric, and equal only for equal unordered pairs.
func Verif_C11_topicIdentifiers() {
	verifFmtExact(true)
	a, b := verifC11Shard("a"), verifC11Shard("b")
	c, d := verifC11Shard("c"), verifC11Shard("d")
	ab := core.CommunicationIdentifierBetweenShards(a, b)
	ba := core.CommunicationIdentifierBetweenShards(b, a)
	verifAssert(ab == ba, "identifier is the same for both directions")
	cd := core.CommunicationIdentifierBetweenShards(c, d)
	all := core.AllShardId
	if a != all && b != all && c != all && d != all && ab == cd {
		verifAssert((a == c && b == d) || (a == d && b == c), "distinct shard pairs have distinct identifiers")
	}
	verifReach("end")
}
