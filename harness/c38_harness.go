package systemSmartContracts

import (
	"math/big"

	"github.com/ElrondNetwork/elrond-go/vm"
	vmcommon "github.com/ElrondNetwork/elrond-vm-common"
)

// ---- environment -------------------------------------------------------------------------------

var (
	verifC38Self      = []byte("delegation-contract-address-0001")
	verifC38Validator = []byte("validator-contract-address-00000")
	verifC38Manager   = []byte("delegation-manager-address-00000")
	verifC38Staking   = []byte("staking-contract-address-0000000")
	verifC38Gov       = []byte("governance-contract-address-0000")
	verifC38EndEpoch  = []byte("end-of-epoch-address-00000000000")
	verifC38Owner     = []byte("owner-address-000000000000000000")
	verifC38User      = []byte("user-address-0000000000000000000")
)

// record-keeping marshalizer: a stored record is a handle to a deep copy of the object (the contract only
// passes the bytes to the storage and tests them for emptiness). The real encoding of these records
// round-trips (C45); encoding every symbolic amount would fork on its byte length at every save.
type verifC38Marshalizer struct{ recs []interface{} }

func verifBigCopy(x *big.Int) *big.Int {
	if x == nil {
		return nil
	}
	return big.NewInt(0).Set(x)
}

func verifBytesCopy(b []byte) []byte {
	if b == nil {
		return nil
	}
	return append([]byte{}, b...)
}

func verifC38Clone(obj interface{}) interface{} {
	switch o := obj.(type) {
	case *Fund:
		return &Fund{Value: verifBigCopy(o.Value), Address: verifBytesCopy(o.Address), Epoch: o.Epoch, Type: o.Type}
	case *GlobalFundData:
		return &GlobalFundData{TotalActive: verifBigCopy(o.TotalActive), TotalUnStaked: verifBigCopy(o.TotalUnStaked)}
	case *DelegatorData:
		c := &DelegatorData{ActiveFund: verifBytesCopy(o.ActiveFund), RewardsCheckpoint: o.RewardsCheckpoint,
			UnClaimedRewards: verifBigCopy(o.UnClaimedRewards), TotalCumulatedRewards: verifBigCopy(o.TotalCumulatedRewards)}
		for _, k := range o.UnStakedFunds {
			c.UnStakedFunds = append(c.UnStakedFunds, verifBytesCopy(k))
		}
		return c
	case *RewardComputationData:
		return &RewardComputationData{RewardsToDistribute: verifBigCopy(o.RewardsToDistribute), TotalActive: verifBigCopy(o.TotalActive), ServiceFee: o.ServiceFee}
	case *DelegationConfig:
		c := *o
		c.MaxDelegationCap, c.InitialOwnerFunds = verifBigCopy(o.MaxDelegationCap), verifBigCopy(o.InitialOwnerFunds)
		return &c
	case *DelegationContractStatus:
		return &DelegationContractStatus{StakedKeys: append([]*NodesData{}, o.StakedKeys...), NotStakedKeys: append([]*NodesData{}, o.NotStakedKeys...),
			UnStakedKeys: append([]*NodesData{}, o.UnStakedKeys...), NumUsers: o.NumUsers}
	case *DelegationManagement:
		c := *o
		c.MinDeposit, c.MinDelegationAmount = verifBigCopy(o.MinDeposit), verifBigCopy(o.MinDelegationAmount)
		return &c
	}
	verifAssert(false, "record type known to the record-keeping marshalizer")
	return nil
}

func (m *verifC38Marshalizer) Marshal(obj interface{}) ([]byte, error) {
	m.recs = append(m.recs, verifC38Clone(obj))
	return []byte{'#', byte(len(m.recs) - 1)}, nil
}

func (m *verifC38Marshalizer) Unmarshal(obj interface{}, buff []byte) error {
	if len(buff) != 2 || buff[0] != '#' || int(buff[1]) >= len(m.recs) {
		return vm.ErrInvalidArgument
	}
	switch dst := obj.(type) {
	case *Fund:
		*dst = *(verifC38Clone(m.recs[buff[1]]).(*Fund))
	case *GlobalFundData:
		*dst = *(verifC38Clone(m.recs[buff[1]]).(*GlobalFundData))
	case *DelegatorData:
		*dst = *(verifC38Clone(m.recs[buff[1]]).(*DelegatorData))
	case *RewardComputationData:
		*dst = *(verifC38Clone(m.recs[buff[1]]).(*RewardComputationData))
	case *DelegationConfig:
		*dst = *(verifC38Clone(m.recs[buff[1]]).(*DelegationConfig))
	case *DelegationContractStatus:
		*dst = *(verifC38Clone(m.recs[buff[1]]).(*DelegationContractStatus))
	case *DelegationManagement:
		*dst = *(verifC38Clone(m.recs[buff[1]]).(*DelegationManagement))
	default:
		return vm.ErrInvalidArgument
	}
	return nil
}
func (m *verifC38Marshalizer) IsInterfaceNil() bool { return m == nil }

// the real vmContext for storage, balances and output; the nested call into the validator contract is
// answered by a stand-in that behaves as the real one does towards the delegation contract: it takes the
// value sent along, accepts stake / unStakeTokens / unBondTokens without return data, and sends the
// un-bonded tokens back
type verifC38Eei struct {
	*vmContext
	calls *int
}

func verifHexNibble(c byte) byte {
	n := c - '0'
	if c > '9' {
		n = c - 'a' + 10
	}
	return n
}

func (e verifC38Eei) ExecuteOnDestContext(destination []byte, sender []byte, value *big.Int, input []byte) (*vmcommon.VMOutput, error) {
	*e.calls++
	fn := 0
	for fn < len(input) && input[fn] != '@' {
		fn++
	}
	_ = e.vmContext.Transfer(destination, sender, value, nil, 0)
	if string(input[:fn]) == "unBondTokens" {
		amount := big.NewInt(0)
		for i := fn + 1; i+1 < len(input); i += 2 {
			amount.Mul(amount, big.NewInt(256))
			amount.Add(amount, big.NewInt(int64(verifHexNibble(input[i])*16+verifHexNibble(input[i+1]))))
		}
		_ = e.vmContext.Transfer(sender, destination, amount, nil, 0)
	}
	return &vmcommon.VMOutput{ReturnCode: vmcommon.Ok}, nil
}

type verifC38State struct {
	d       *delegation
	host    *vmContext
	hook    *verifC39Hook
	mar     *verifC38Marshalizer
	users   [][]byte
	paidOut map[string]*big.Int // withdrawn by the user so far
	undeleg map[string]*big.Int // un-delegated by the user so far
	claimed *big.Int            // rewards paid out or re-delegated so far
	rewards *big.Int            // rewards received so far
}

func verifC38Amount(name string) *big.Int {
	v := verifBig(name)
	verifAssume(v.Sign() > 0)
	verifAssume(v.Cmp(big.NewInt(5000)) <= 0)
	return v
}

func verifC38New() *verifC38State { return verifC38NewWith(nil) }

func verifC38NewWith(initial *big.Int) *verifC38State {
	hook := &verifC39Hook{nonce: 10, epoch: 2}
	host := &vmContext{blockChainHook: hook, inputParser: verifC40Parser{}, scAddress: verifC38Self,
		storageUpdate: map[string]map[string][]byte{}, outputAccounts: map[string]*vmcommon.OutputAccount{}}
	mar := &verifC38Marshalizer{}
	calls := 0
	d := &delegation{eei: verifC38Eei{host, &calls}, delegationMgrSCAddress: verifC38Manager, stakingSCAddr: verifC38Staking, validatorSCAddr: verifC38Validator,
		endOfEpochAddr: verifC38EndEpoch, governanceSCAddr: verifC38Gov, marshalizer: mar, minServiceFee: 0, maxServiceFee: 10000,
		unBondPeriodInEpochs: uint32(verifU8("unBondPeriodInEpochs") & 3), nodePrice: big.NewInt(2500), unJailPrice: big.NewInt(10), minStakeValue: big.NewInt(10)}
	d.delegationEnabled.Set()
	d.stakingV2Enabled.Set()
	if verifBool("flagReDelegateBelowMinCheck") {
		d.flagReDelegateBelowMinCheck.Set()
	}
	mgmt, _ := mar.Marshal(&DelegationManagement{MinDeposit: big.NewInt(1250), MinDelegationAmount: big.NewInt(1000), MaxServiceFee: 10000})
	host.SetStorageForAddress(verifC38Manager, []byte(delegationManagementKey), mgmt)
	st := &verifC38State{d: d, host: host, hook: hook, mar: mar, users: [][]byte{verifC38Owner, verifC38User},
		paidOut: map[string]*big.Int{}, undeleg: map[string]*big.Int{}, claimed: big.NewInt(0), rewards: big.NewInt(0)}
	for _, u := range st.users {
		st.paidOut[string(u)] = big.NewInt(0)
		st.undeleg[string(u)] = big.NewInt(0)
	}
	// init: the owner creates the contract with the initial funds, no delegation cap, 10% service fee
	if initial == nil {
		initial = verifBig("initialOwnerFunds")
		verifAssume(initial.Cmp(big.NewInt(1250)) >= 0)
		verifAssume(initial.Cmp(big.NewInt(5000)) <= 0)
	}
	rc := d.Execute(&vmcommon.ContractCallInput{VMInput: vmcommon.VMInput{CallerAddr: verifC38Owner, CallValue: initial, Arguments: [][]byte{{}, {0x03, 0xe8}}}, RecipientAddr: verifC38Self, Function: "_init"})
	verifAssert(rc == vmcommon.Ok, "contract initialised")
	return st
}

func (st *verifC38State) balance(addr []byte) *big.Int {
	acc, ok := st.host.outputAccounts[string(addr)]
	if !ok {
		return big.NewInt(0)
	}
	return big.NewInt(0).Set(acc.BalanceDelta)
}

// call runs one call; a failed call's effects (storage, transfers) are discarded, as scProcessor does
func (st *verifC38State) call(caller []byte, fn string, value *big.Int, args ...[]byte) vmcommon.ReturnCode {
	savedStorage := map[string]map[string][]byte{}
	for a, m := range st.host.storageUpdate {
		c := make(map[string][]byte, len(m))
		for k, v := range m {
			c[k] = v
		}
		savedStorage[a] = c
	}
	savedBalances := map[string]*big.Int{}
	for a, acc := range st.host.outputAccounts {
		savedBalances[a] = big.NewInt(0).Set(acc.BalanceDelta)
	}
	// the call value arrives at the contract with the call
	_ = st.host.Transfer(verifC38Self, caller, value, nil, 0)
	rc := st.d.Execute(&vmcommon.ContractCallInput{VMInput: vmcommon.VMInput{CallerAddr: caller, CallValue: value, Arguments: args}, RecipientAddr: verifC38Self, Function: fn})
	if rc != vmcommon.Ok {
		st.host.storageUpdate = savedStorage
		for a, acc := range st.host.outputAccounts {
			if b, ok := savedBalances[a]; ok {
				acc.BalanceDelta.Set(b)
			} else {
				acc.BalanceDelta.SetInt64(0)
			}
		}
	}
	return rc
}

// ---- the bookkeeping conditions of the property --------------------------------------------------

func (st *verifC38State) check(where string) {
	d := st.d
	global, err := d.getGlobalFundData()
	verifAssert(err == nil, where+": global fund data readable")
	if err != nil {
		return
	}
	sumActive, sumUnStaked := big.NewInt(0), big.NewInt(0)
	for _, u := range st.users {
		isNew, del, errGet := d.getOrCreateDelegatorData(u)
		verifAssert(errGet == nil, where+": delegator data readable")
		if errGet != nil || isNew {
			continue
		}
		if len(del.ActiveFund) > 0 {
			f, errFund := d.getFund(del.ActiveFund)
			verifAssert(errFund == nil, where+": the active fund a delegator refers to exists")
			if errFund == nil {
				verifAssert(f.Type == active && string(f.Address) == string(u), where+": the active fund belongs to the delegator")
				verifAssert(f.Value.Sign() > 0, where+": a stored fund is not empty")
				sumActive.Add(sumActive, f.Value)
			}
		}
		for i, k := range del.UnStakedFunds {
			f, errFund := d.getFund(k)
			verifAssert(errFund == nil, where+": every un-staked fund a delegator refers to exists")
			if errFund == nil {
				verifAssert(f.Type == unStaked && string(f.Address) == string(u), where+": the un-staked fund belongs to the delegator")
				sumUnStaked.Add(sumUnStaked, f.Value)
			}
			for j := 0; j < i; j++ {
				verifAssert(string(del.UnStakedFunds[j]) != string(k), where+": no fund is referenced twice")
			}
		}
		verifAssert(del.UnClaimedRewards.Sign() >= 0, where+": unclaimed rewards are not negative")
	}
	verifAssert(global.TotalActive.Cmp(sumActive) == 0, where+": total active stake equals the sum of the delegators' active funds")
	verifAssert(global.TotalUnStaked.Cmp(sumUnStaked) == 0, where+": total un-staked equals the sum of the delegators' un-staked funds")
	for _, u := range st.users {
		verifAssert(st.paidOut[string(u)].Cmp(st.undeleg[string(u)]) <= 0, where+": withdrawals paid out never exceed what was un-delegated")
	}
}

// ---- operations ---------------------------------------------------------------------------------

func (st *verifC38State) op(tag string) {
	who := st.users[verifChoice(tag+"who", len(st.users))]
	switch verifChoice(tag+"op", 7) {
	case 0:
		st.call(who, "delegate", verifC38Amount(tag+"amount"))
	case 1:
		amount := verifC38Amount(tag + "amount")
		if st.call(who, "unDelegate", big.NewInt(0), amount.Bytes()) == vmcommon.Ok {
			st.undeleg[string(who)].Add(st.undeleg[string(who)], amount)
		}
	case 2:
		before := st.balance(who)
		if st.call(who, "withdraw", big.NewInt(0)) == vmcommon.Ok {
			st.paidOut[string(who)].Add(st.paidOut[string(who)], big.NewInt(0).Sub(st.balance(who), before))
		}
	case 3:
		before := st.balance(who)
		if st.call(who, "claimRewards", big.NewInt(0)) == vmcommon.Ok {
			st.claimed.Add(st.claimed, big.NewInt(0).Sub(st.balance(who), before))
		}
	case 4:
		st.call(who, "reDelegateRewards", big.NewInt(0))
	case 5:
		// end of epoch: rewards arrive, the next epoch starts
		r := verifC38Amount(tag + "rewards")
		if st.call(verifC38EndEpoch, "updateRewards", r) == vmcommon.Ok {
			st.rewards.Add(st.rewards, r)
		}
		st.hook.epoch++
	case 6:
		st.hook.epoch++
	}
}

// Sequences of operations from the freshly created contract (owner + one more delegator): delegate,
// unDelegate, withdraw, claimRewards, reDelegateRewards, end-of-epoch reward update, epochs passing; all
// amounts, the un-bond period and the below-minimum flag symbolic.
func Verif_C38_sequences() {
	st := verifC38New()
	st.check("init")
	n := verifParam("ops")
	for i := 0; i < n; i++ {
		st.op(string(rune('a' + i)))
		st.check("op")
	}
	verifReach("end")
}

// ---- one step from an arbitrary consistent state ------------------------------------------------

// anyState writes an arbitrary state satisfying the bookkeeping conditions: the owner and optionally one
// more delegator, each with or without an active fund and with 0..2 un-staked funds (strictly increasing
// epochs, none in the future), arbitrary amounts, unclaimed rewards and reward checkpoints; a reward record
// for the current epoch with arbitrary amounts; global totals equal to the sums.
func (st *verifC38State) anyState() {
	d := st.d
	st.hook.epoch = 6
	next := int64(1)
	newKey := func() []byte {
		k := append([]byte(fundKeyPrefix), big.NewInt(next).Bytes()...)
		next++
		return k
	}
	totalActive, totalUnStaked := big.NewInt(0), big.NewInt(0)
	for ui, u := range st.users {
		tag := "s" + string(rune('0'+ui))
		if ui > 0 && !verifBool(tag+"exists") {
			st.host.SetStorage(u, nil)
			continue
		}
		del := &DelegatorData{UnClaimedRewards: big.NewInt(0), TotalCumulatedRewards: big.NewInt(0)}
		if verifBool(tag + "hasActive") {
			v := verifC38Amount(tag + "active")
			del.ActiveFund = newKey()
			verifAssert(d.saveFund(del.ActiveFund, &Fund{Value: v, Address: u, Epoch: 3, Type: active}) == nil, "pre-state fund written")
			totalActive.Add(totalActive, v)
		}
		nUn := verifChoice(tag+"numUnStaked", 3)
		epoch := uint32(0)
		for j := 0; j < nUn; j++ {
			v := verifC38Amount(tag + "unStaked" + string(rune('0'+j)))
			step := uint32(verifU8(tag+"unStakedEpochStep"+string(rune('0'+j))) & 3)
			verifAssume(step >= 1)
			epoch += step
			k := newKey()
			verifAssert(d.saveFund(k, &Fund{Value: v, Address: u, Epoch: epoch, Type: unStaked}) == nil, "pre-state fund written")
			del.UnStakedFunds = append(del.UnStakedFunds, k)
			totalUnStaked.Add(totalUnStaked, v)
			st.undeleg[string(u)].Add(st.undeleg[string(u)], v)
		}
		del.UnClaimedRewards = verifC38Amount(tag + "unclaimed")
		del.UnClaimedRewards.Sub(del.UnClaimedRewards, big.NewInt(1)) // zero included
		del.RewardsCheckpoint = 5 + uint32(verifChoice(tag+"checkpoint", 3))
		verifAssert(d.saveDelegatorData(u, del) == nil, "pre-state delegator written")
	}
	st.host.SetStorage([]byte(lastFundKey), append([]byte(fundKeyPrefix), big.NewInt(next-1).Bytes()...))
	verifAssert(d.saveGlobalFundData(&GlobalFundData{TotalActive: totalActive, TotalUnStaked: totalUnStaked}) == nil, "pre-state totals written")
	for e := uint32(6); e <= 6; e++ {
		if verifBool("rewardsForEpoch" + string(rune('0'+e))) {
			ta := verifC38Amount("rewardTotalActive" + string(rune('0'+e)))
			ta.Sub(ta, big.NewInt(1))
			_ = d.saveRewardData(e, &RewardComputationData{RewardsToDistribute: verifC38Amount("rewardAmount" + string(rune('0'+e))), TotalActive: ta, ServiceFee: 1000})
		}
	}
	cfg, _ := d.getDelegationContractConfig()
	if verifBool("ownerFundsWithdrawn") {
		cfg.InitialOwnerFunds = big.NewInt(0)
	}
	if verifBool("withCap") {
		cfg.MaxDelegationCap = verifC38Amount("delegationCap")
	}
	_ = d.saveDelegationContractConfig(cfg)
}

func (st *verifC38State) conservation(where string) {
	for _, u := range st.users {
		sum := big.NewInt(0)
		isNew, del, err := st.d.getOrCreateDelegatorData(u)
		if err == nil && !isNew {
			for _, k := range del.UnStakedFunds {
				if f, errFund := st.d.getFund(k); errFund == nil {
					sum.Add(sum, f.Value)
				}
			}
		}
		sum.Add(sum, st.paidOut[string(u)])
		verifAssert(sum.Cmp(st.undeleg[string(u)]) == 0, where+": what a delegator un-delegated is either still in his un-staked funds or was paid out by a withdrawal")
	}
}

// One operation from an arbitrary state that satisfies the conditions (inductive step): they hold again,
// and every un-delegated token is either still recorded as un-staked or was paid out.
func Verif_C38_step() {
	st := verifC38New()
	// forget the initial delegation of the owner: the generated state replaces it
	isNew, del, _ := st.d.getOrCreateDelegatorData(verifC38Owner)
	if !isNew && len(del.ActiveFund) > 0 {
		st.host.SetStorage(del.ActiveFund, nil)
	}
	st.anyState()
	st.check("pre")
	st.conservation("pre")
	st.op("a")
	st.check("post")
	st.conservation("post")
	verifReach("end")
}

// Rewards: the owner (5000) and one more delegator whose stake goes through concrete levels (1000, then
// topped up, reduced or unchanged), two or three reward epochs with symbolic amounts, everybody claims (or
// re-delegates) at the end: what is paid out never exceeds what was received, whatever the rounding.
func Verif_C38_rewards() {
	st := verifC38NewWith(big.NewInt(5000))
	verifAssert(st.call(verifC38User, "delegate", big.NewInt(1000)) == vmcommon.Ok, "user delegated")
	// two reward epochs: the delegator is entitled from the epoch after the one he joined in
	for _, name := range []string{"rewards1", "rewards2"} {
		r := verifC38Amount(name)
		verifAssert(st.call(verifC38EndEpoch, "updateRewards", r) == vmcommon.Ok, "rewards recorded")
		st.rewards.Add(st.rewards, r)
		st.hook.epoch++
	}
	switch verifChoice("middle", 4) {
	case 0:
		verifAssert(st.call(verifC38User, "delegate", big.NewInt(4000)) == vmcommon.Ok, "user topped up")
	case 1:
		st.call(verifC38User, "unDelegate", big.NewInt(0), big.NewInt(1000).Bytes())
	case 2:
		st.call(verifC38Owner, "delegate", big.NewInt(3000))
	}
	if verifBool("thirdRewardEpoch") {
		r3 := verifC38Amount("rewards3")
		verifAssert(st.call(verifC38EndEpoch, "updateRewards", r3) == vmcommon.Ok, "rewards recorded")
		st.rewards.Add(st.rewards, r3)
		st.hook.epoch++
	}
	for _, u := range st.users {
		before := st.balance(u)
		if verifBool("reDelegate" + string(u[:1])) {
			_, del, _ := st.d.getOrCreateDelegatorData(u)
			unclaimedBefore := big.NewInt(0).Set(del.UnClaimedRewards)
			if st.call(u, "reDelegateRewards", big.NewInt(0)) == vmcommon.Ok {
				_, after, _ := st.d.getOrCreateDelegatorData(u)
				st.claimed.Add(st.claimed, big.NewInt(0).Sub(after.TotalCumulatedRewards, del.TotalCumulatedRewards))
			}
			_ = unclaimedBefore
		} else if st.call(u, "claimRewards", big.NewInt(0)) == vmcommon.Ok {
			st.claimed.Add(st.claimed, big.NewInt(0).Sub(st.balance(u), before))
		}
	}
	verifAssert(st.claimed.Cmp(st.rewards) <= 0, "the rewards paid out or re-delegated never exceed the rewards received")
	st.check("end")
	verifReach("end")
}
