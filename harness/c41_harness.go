package systemSmartContracts

import (
	"github.com/ElrondNetwork/elrond-go/vm"
)

type verifC41Hook struct{ vm.BlockchainHook }

func (verifC41Hook) CurrentRandomSeed() []byte { return []byte("seed") }

// storage stub: for every probed identifier the answer "already issued" is a fresh symbolic choice
type verifC41EEI struct {
	vm.SystemEI
	probed  [][]byte
	existed []bool
}

func (e *verifC41EEI) BlockChainHook() vm.BlockchainHook { return verifC41Hook{} }
func (e *verifC41EEI) GetStorage(key []byte) []byte {
	ex := verifBool("exists")
	e.probed = append(e.probed, append([]byte{}, key...))
	e.existed = append(e.existed, ex)
	if ex {
		return []byte{1}
	}
	return nil
}

// hasher stub: an arbitrary function - every call returns fresh symbolic bytes (replayable natively)
type verifC41Hasher struct{}

func (verifC41Hasher) Compute(string) []byte { return verifBytes("hashOut", 32) }
func (verifC41Hasher) Size() int              { return 32 }
func (verifC41Hasher) IsInterfaceNil() bool   { return false }

func verifIsLowerHex(c byte) bool { return (c >= '0' && c <= '9') || (c >= 'a' && c <= 'f') }

// The random seed of the identifier is a hash output: arbitrary 3 bytes (hasher = unknown function).
func Verif_C41_identifier() {
	verifFmtExact(true) // the identifier text is the subject: render %06x exactly
	eei := &verifC41EEI{}
	e := &esdt{eei: eei, hasher: verifC41Hasher{}}
	ticker := []byte("TCK")
	id, err := e.createNewTokenIdentifier(verifBytes("caller", 2), ticker)
	// all the probes before the returned one were answered "exists"
	if err != nil {
		verifAssert(len(eei.probed) == numOfRetriesForIdentifier, "gives up only after all retries")
		verifReach("exhausted")
		return
	}
	verifAssert(len(id) == len(ticker)+1+6, "identifier is TICKER-xxxxxx (6 hex digits)")
	if len(id) == len(ticker)+1+6 {
		verifAssert(string(id[:4]) == "TCK-", "ticker and separator")
		ok := true
		for _, c := range id[4:] {
			ok = ok && verifIsLowerHex(c)
		}
		verifAssert(ok, "six lowercase hex digits")
	}
	n := len(eei.probed)
	verifAssert(n >= 1 && !eei.existed[n-1], "returned identifier was not issued before")
	if n >= 1 {
		last := eei.probed[n-1]
		same := len(last) == len(id)
		if same {
			for i := range id {
				same = same && last[i] == id[i]
			}
		}
		verifAssert(same, "returned identifier is the one that was probed last")
	}
	verifReach("issued")
}
