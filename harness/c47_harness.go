package parsing

import (
	"bytes"
	"math/big"
	"strings"

	"github.com/ElrondNetwork/elrond-go/core"
	"github.com/ElrondNetwork/elrond-go/core/pubkeyConverter"
	"github.com/ElrondNetwork/elrond-go/crypto"
	"github.com/ElrondNetwork/elrond-go/genesis/data"
)

type verifKeyGen struct{ crypto.KeyGenerator }

func (verifKeyGen) CheckPublicKeyValid(b []byte) error { return nil }
func (verifKeyGen) IsInterfaceNil() bool               { return false }

// Entries of a genesis file: amounts are symbolic integers; the address of every entry is one of the
// spellings of a small pool (two user addresses in lower and upper case, a smart contract address),
// decoded by the real bech32 converter.
func Verif_C47_acceptedFile() {
	conv, _ := pubkeyConverter.NewBech32PubkeyConverter(32)
	a := bytes.Repeat([]byte{0x11}, 32)
	b := bytes.Repeat([]byte{0x22}, 32)
	sc := append(make([]byte, 8), bytes.Repeat([]byte{0x33}, 24)...)
	pool := []string{conv.Encode(a), strings.ToUpper(conv.Encode(a)), conv.Encode(b), strings.ToUpper(conv.Encode(b)), conv.Encode(sc)}
	n := verifParam("entries")
	ap := &accountsParser{entireSupply: verifBig("total"), pubkeyConverter: conv, keyGenerator: verifKeyGen{}}
	for i := 0; i < n; i++ {
		ia := &data.InitialAccount{
			Address: pool[verifChoice("addr", len(pool))], Supply: verifBig("supply"), Balance: verifBig("balance"), StakingValue: verifBig("staked"),
			Delegation: &data.DelegationData{Address: pool[2], Value: verifBig("delegated")},
		}
		if verifParam("concreteAmounts") == 1 {
			// duplicate detection run: valid fixed amounts, only the addresses vary
			ia.Supply, ia.Balance, ia.StakingValue, ia.Delegation.Value = big.NewInt(3), big.NewInt(1), big.NewInt(1), big.NewInt(1)
		}
		ap.initialAccounts = append(ap.initialAccounts, ia)
	}
	if ap.process() != nil {
		verifReach("rejected")
		return
	}
	sum := big.NewInt(0)
	for i, ia := range ap.initialAccounts {
		parts := big.NewInt(0).Add(ia.Balance, ia.StakingValue)
		parts.Add(parts, ia.Delegation.Value)
		verifAssert(ia.Supply.Cmp(parts) == 0, "supply = balance + staked + delegated")
		verifAssert(ia.Balance.Sign() >= 0 && ia.StakingValue.Sign() >= 0 && ia.Delegation.Value.Sign() >= 0 && ia.Supply.Sign() > 0, "amounts are not negative, supply positive")
		verifAssert(!core.IsSmartContractAddress(ia.AddressBytes()), "no entry is a smart contract address")
		sum.Add(sum, ia.Supply)
		for j := 0; j < i; j++ {
			verifAssert(!bytes.Equal(ap.initialAccounts[j].AddressBytes(), ia.AddressBytes()), "no two entries denote the same address")
		}
	}
	verifAssert(sum.Cmp(ap.entireSupply) == 0, "supplies add up to the total supply")
	verifReach("accepted")
}
