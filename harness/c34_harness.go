package metachain


func Verif_C34_forceThenUpdate() {
	t := &trigger{}
	t.currEpochStartRound = verifU64("currStart")
	t.roundsPerEpoch = verifU64("rpe")
	t.minRoundsBetweenEpochs = verifU64("min")
	t.nextEpochStartRound = disabledRoundForForceEpochStart
	verifAssume(t.roundsPerEpoch >= t.minRoundsBetweenEpochs)
	verifAssume(t.currEpochStartRound < 1<<62 && t.roundsPerEpoch < 1<<62)
	t.ForceEpochStart(verifU64("forced"))
	t.Update(verifU64("round"), verifU64("nonce"))
	if t.isEpochStart {
		verifAssert(t.currentRound-t.prevEpochStartRound >= t.minRoundsBetweenEpochs, "min-epoch-length")
	}
	verifReach("end")
}
