package pubkeyConverter

import (
	"bytes"

	"github.com/btcsuite/btcutil/bech32"
)

// (a) bit regrouping of the bech32 form, all 2^256 addresses at once: 8->5 bits with padding and back.
func Verif_C48_regrouping() {
	n := verifParam("addrLen")
	x := verifBytes("x", n)
	five, err := bech32.ConvertBits(x, 8, 5, true)
	verifAssert(err == nil, "8->5 conversion succeeds")
	for _, v := range five {
		verifAssert(v < 32, "5-bit groups")
	}
	back, err := bech32.ConvertBits(five, 5, 8, false)
	verifAssert(err == nil, "5->8 conversion succeeds")
	verifAssert(bytes.Equal(back, x), "regrouping round-trips")
	verifReach("end")
}

// (b) shape of the text for every address: prefix, separator, length, alphabet (the checksum
// characters are computed by the real code over the symbolic data; only their alphabet is asserted).
func Verif_C48_textShape() {
	n := verifParam("addrLen")
	conv, err := NewBech32PubkeyConverter(n)
	verifAssert(err == nil, "converter created")
	x := verifBytes("x", n)
	s := conv.Encode(x)
	groups := (8*n + 4) / 5
	verifAssert(len(s) == 4+groups+6, "text length = prefix + separator + data groups + 6 checksum characters")
	if len(s) > 4 {
		verifAssert(s[:4] == "erd1", "text starts with the erd prefix and separator")
		const charset = "qpzry9x8gf2tvdw0s3jn54khce6mua7l"
		for i := 4; i < len(s); i++ {
			in := false
			for j := 0; j < len(charset); j++ {
				in = in || s[i] == charset[j]
			}
			verifAssert(in, "only bech32 alphabet characters")
		}
	}
	verifReach("end")
}

// (c) one concrete address through the whole text round trip (a reachability witness for Decode, the
// BCH checksum identity over symbolic data is outside the claim), and rejection of a text with another
// prefix / another decoded length.
func Verif_C48_rejects() {
	n := verifParam("addrLen")
	conv, _ := NewBech32PubkeyConverter(n)
	x := make([]byte, n)
	for i := range x {
		x[i] = byte(91*i + 5)
	}
	y, err := conv.Decode(conv.Encode(x))
	verifAssert(err == nil && bytes.Equal(x, y), "a concrete address round-trips through the text form")
	five, _ := bech32.ConvertBits(x, 8, 5, true)
	for _, hrp := range []string{"bc", "er", "erdx", "xerd", "erd1x", "erd11", "erd1testnet"} {
		other, errEnc := bech32.Encode(hrp, five)
		verifAssert(errEnc == nil, "foreign text built")
		_, err = conv.Decode(other)
		verifAssert(err != nil, "text with another prefix is rejected (also prefixes that contain the separator character)")
	}
	short, _ := bech32.ConvertBits(x[:n-2], 8, 5, true)
	shortText, _ := bech32.Encode("erd", short)
	_, err = conv.Decode(shortText)
	verifAssert(err != nil, "text decoding to another length is rejected")
	verifReach("end")
}

// (d) hex form: round trip for all byte strings of the configured length, wrong length rejected.
func Verif_C48_hex() {
	n := verifParam("addrLen")
	conv, _ := NewHexPubkeyConverter(n)
	x := verifBytes("x", n)
	s := conv.Encode(x)
	verifAssert(len(s) == 2*n, "two hex digits per byte")
	y, err := conv.Decode(s)
	verifAssert(err == nil && bytes.Equal(x, y), "hex text round-trips")
	_, err = conv.Decode(s[2:])
	verifAssert(err != nil, "hex text of another length is rejected")
	verifReach("end")
}
