package pubkeyConverter


func Verif_C48_roundtrip() {
	n := 2 * (1 + verifChoice("halfLen", 2)) // 2 or 4 bytes
	conv, _ := NewBech32PubkeyConverter(n)
	x := verifBytes("x", n)
	s := conv.Encode(x)
	verifAssert(len(s) > 0, "encodes")
	y, err := conv.Decode(s)
	verifAssert(err == nil, "decodes")
	if err == nil {
		verifAssert(len(y) == n, "length")
		for i := range x {
			verifAssert(y[i] == x[i], "same bytes")
		}
	}
	verifReach("end")
}
