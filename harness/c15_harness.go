package sharding

// hasher stub: an arbitrary *function* - fresh symbolic bytes for a new input, the same bytes again for an
// input seen before (inputs are concrete here: draw index + randomness)
type verifC15Hasher struct {
	inputs  []string
	outputs [][]byte
}

func (h *verifC15Hasher) Compute(s string) []byte {
	for i, in := range h.inputs {
		if in == s {
			return h.outputs[i]
		}
	}
	out := verifBytes("hashOut", 32)
	h.inputs = append(h.inputs, s)
	h.outputs = append(h.outputs, out)
	return out
}
func (h *verifC15Hasher) Size() int           { return 32 }
func (h *verifC15Hasher) IsInterfaceNil() bool { return h == nil }

type verifC15Cache struct{ m map[string]interface{} }

func (c *verifC15Cache) Clear()                                                  { c.m = map[string]interface{}{} }
func (c *verifC15Cache) Put(key []byte, value interface{}, sizeInBytes int) bool { c.m[string(key)] = value; return false }
func (c *verifC15Cache) Get(key []byte) (interface{}, bool)                      { v, ok := c.m[string(key)]; return v, ok }

// Selector level: n validators with symbolic weights (rating based chances), sample size k <= n,
// every draw's hash value arbitrary.
func Verif_C15_selector() {
	n := verifParam("validators")
	weights := make([]uint32, n)
	for i := range weights {
		w := verifU8("weight")
		verifAssume(w >= 1 && int(w) <= verifParam("maxWeight"))
		weights[i] = uint32(w)
	}
	h := &verifC15Hasher{}
	sel, err := NewSelectorExpandedList(weights, h)
	verifAssert(err == nil, "selector created")
	k := uint32(1 + verifChoice("groupSize", n))
	seed := []byte("rand")
	got, err := sel.Select(seed, k)
	verifAssert(err == nil, "selection succeeds for a group size up to the number of validators")
	verifAssert(uint32(len(got)) == k, "exactly the configured group size")
	for i := range got {
		verifAssert(got[i] < uint32(n), "selected index denotes a validator of the list")
		for j := 0; j < i; j++ {
			verifAssert(got[i] != got[j], "the selected validators are distinct")
		}
	}
	again, err2 := sel.Select(seed, k)
	verifAssert(err2 == nil && len(again) == len(got), "second selection succeeds")
	for i := range got {
		if i < len(again) {
			verifAssert(again[i] == got[i], "same inputs give the same group (selection keeps no state)")
		}
	}
	verifReach("end")
}

// Coordinator level: real ComputeConsensusGroup on a constructed epoch configuration, with and without the cache.
func Verif_C15_consensusGroup() {
	n := verifParam("validators")
	var elig []Validator
	for i := 0; i < n; i++ {
		elig = append(elig, verifVal(string(rune('a'+i))))
	}
	h := &verifC15Hasher{}
	weights := make([]uint32, n)
	for i := range weights {
		weights[i] = 1
	}
	sel, _ := NewSelectorExpandedList(weights, h)
	k := 1 + verifChoice("groupSize", n)
	cache := &verifC15Cache{m: map[string]interface{}{}}
	ihgs := &indexHashedNodesCoordinator{shardConsensusGroupSize: k, metaConsensusGroupSize: k, consensusGroupCacher: cache,
		nodesConfig: map[uint32]*epochNodesConfig{3: {nbShards: 1, eligibleMap: map[uint32][]Validator{0: elig}, selectors: map[uint32]RandomSelector{0: sel}}}}
	g1, err := ihgs.ComputeConsensusGroup([]byte("rnd"), 7, 0, 3)
	verifAssert(err == nil && len(g1) == k, "group of the configured size")
	for i := range g1 {
		verifAssert(verifHasKey(elig, g1[i]) == 1, "members are eligible validators of that shard and epoch")
		for j := 0; j < i; j++ {
			verifAssert(string(g1[i].PubKey()) != string(g1[j].PubKey()), "members are distinct")
		}
	}
	g2, _ := ihgs.ComputeConsensusGroup([]byte("rnd"), 7, 0, 3) // served by the cache
	cache.Clear()
	g3, _ := ihgs.ComputeConsensusGroup([]byte("rnd"), 7, 0, 3) // recomputed
	verifAssert(len(g2) == len(g1) && len(g3) == len(g1), "same size with and without the cache")
	for i := range g1 {
		if i < len(g2) && i < len(g3) {
			verifAssert(string(g2[i].PubKey()) == string(g1[i].PubKey()) && string(g3[i].PubKey()) == string(g1[i].PubKey()), "same group, leader first, with and without the cache")
		}
	}
	_, errEpoch := ihgs.ComputeConsensusGroup([]byte("rnd"), 7, 0, 4)
	verifAssert(errEpoch != nil, "unknown epoch is an error")
	_, errShard := ihgs.ComputeConsensusGroup([]byte("rnd"), 7, 5, 3)
	verifAssert(errShard != nil, "unknown shard is an error")
	verifReach("end")
}

type verifC15CountingCache struct {
	verifC15Cache
	hits int
}

func (c *verifC15CountingCache) Get(key []byte) (interface{}, bool) {
	v, ok := c.m[string(key)]
	if ok {
		c.hits++
	}
	return v, ok
}

// Two queries on one coordinator with a cache, randomness (1..3 symbolic bytes) and round (< 1000)
// symbolic: the second query is answered from the cache only if it is the same query, so a group
// computed for one (randomness, round) is never handed out for another one.
func Verif_C15_cacheKeys() {
	verifFmtExact(true) // the cache key is rendered with Sprintf
	elig := []Validator{verifVal("a"), verifVal("b"), verifVal("c")}
	h := &verifC15Hasher{}
	sel, _ := NewSelectorExpandedList([]uint32{1, 1, 1}, h)
	cache := &verifC15CountingCache{verifC15Cache: verifC15Cache{m: map[string]interface{}{}}}
	ihgs := &indexHashedNodesCoordinator{shardConsensusGroupSize: 1, metaConsensusGroupSize: 1, consensusGroupCacher: cache,
		nodesConfig: map[uint32]*epochNodesConfig{3: {nbShards: 1, eligibleMap: map[uint32][]Validator{0: elig}, selectors: map[uint32]RandomSelector{0: sel}}}}
	rnd1 := verifBytes("rnd1", 1+verifChoice("len1", 3))
	rnd2 := verifBytes("rnd2", 1+verifChoice("len2", 3))
	round1, round2 := verifU64("round1"), verifU64("round2")
	verifAssume(round1 < 1000)
	verifAssume(round2 < 1000)
	_, err := ihgs.ComputeConsensusGroup(rnd1, round1, 0, 3)
	verifAssert(err == nil, "first group computed")
	before := cache.hits
	_, err = ihgs.ComputeConsensusGroup(rnd2, round2, 0, 3)
	verifAssert(err == nil, "second group computed")
	same := round1 == round2 && string(rnd1) == string(rnd2)
	if !same {
		verifAssert(cache.hits == before, "a different query is not answered with the cached group of another query")
	} else {
		verifAssert(cache.hits == before+1, "the same query is answered from the cache")
	}
	verifReach("end")
}
