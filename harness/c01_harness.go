package trie

// uses verifNewTrie / eqBytes from c04_harness.go

func Verif_C01_twoKeys() {
	tr := verifNewTrie()
	k1 := verifBytes("k1", 1)
	k2 := verifBytes("k2", 1)
	v1 := []byte("v1")
	v2 := []byte("v2")
	_ = tr.Update(k1, v1)
	_ = tr.Update(k2, v2)
	g1, err1 := tr.Get(k1)
	g2, err2 := tr.Get(k2)
	verifAssert(err1 == nil && err2 == nil, "no error")
	verifAssert(eqBytes(g2, v2), "last written value for k2")
	if eqBytes(k1, k2) {
		verifAssert(eqBytes(g1, v2), "k1==k2: overwritten")
	} else {
		verifAssert(eqBytes(g1, v1), "k1 keeps its value")
	}
	k3 := verifBytes("k3", 1)
	g3, _ := tr.Get(k3)
	if !eqBytes(k3, k1) && !eqBytes(k3, k2) {
		verifAssert(len(g3) == 0, "absent key reads nothing")
	}
	// delete k1, then k2 must still be there (unless same key)
	_ = tr.Update(k1, nil)
	g2b, _ := tr.Get(k2)
	if !eqBytes(k1, k2) {
		verifAssert(eqBytes(g2b, v2), "k2 survives deletion of k1")
	} else {
		verifAssert(len(g2b) == 0, "deleted")
	}
	verifReach("end")
}
