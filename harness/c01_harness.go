package trie

// reference map kept by the harness: parallel slices, last write wins, empty value = absent
type verifRef struct {
	keys [][]byte
	vals [][]byte
}

func (r *verifRef) set(k, v []byte) {
	r.keys = append(r.keys, k)
	r.vals = append(r.vals, v)
}

// Key-value behaviour for every pair of symbolic keys (equal or different, sharing any prefix) and a
// third symbolic probe key: update, overwrite, lookup of an absent key, delete.
func Verif_C01_twoKeys() {
	tr := verifNewTrie()
	kl := verifParam("keyLen")
	k1 := verifKey("k1", kl)
	k2 := verifKey("k2", kl)
	v1 := []byte("v1")
	v2 := []byte("v2")
	_ = tr.Update(k1, v1)
	_ = tr.Update(k2, v2)
	g1, err1 := tr.Get(k1)
	g2, err2 := tr.Get(k2)
	verifAssert(err1 == nil && err2 == nil, "no error")
	verifAssert(eqBytes(g2, v2), "last written value for k2")
	if eqBytes(k1, k2) {
		verifAssert(eqBytes(g1, v2), "k1==k2: overwritten")
	} else {
		verifAssert(eqBytes(g1, v1), "k1 keeps its value")
	}
	k3 := verifKey("k3", kl)
	g3, _ := tr.Get(k3)
	if !eqBytes(k3, k1) && !eqBytes(k3, k2) {
		verifAssert(len(g3) == 0, "absent key reads nothing")
	}
	// delete k1 (update with empty value), then k2 must still be there (unless same key)
	_ = tr.Update(k1, nil)
	g2b, _ := tr.Get(k2)
	g1b, _ := tr.Get(k1)
	verifAssert(len(g1b) == 0, "deleted key reads nothing")
	if !eqBytes(k1, k2) {
		verifAssert(eqBytes(g2b, v2), "k2 survives deletion of k1")
	} else {
		verifAssert(len(g2b) == 0, "deleted")
	}
	verifReach("end")
}

// Three symbolic keys with symbolic one-byte values, then Delete of the second; after every step all
// three keys read back what the reference says; finally the leaves of the committed root are
// exactly the live pairs, once each, with the original key bytes.
func Verif_C01_threeKeysLeaves() {
	tr, _ := verifNewTrieLevel(uint(verifParam("level")))
	kl := verifParam("keyLen")
	keys := [][]byte{verifKey("k1", kl), verifKey("k2", kl), verifKey("k3", kl)}
	vals := [][]byte{verifBytes("v1", 1), verifBytes("v2", 1), verifBytes("v3", 1)}
	check := func(upto int, deleted int) {
		for i := 0; i < 3; i++ {
			// expected: value of the last write j <= upto with keys[j] == keys[i]; none if deleted
			var exp []byte
			for j := 0; j <= upto && j < 3; j++ {
				if eqBytes(keys[j], keys[i]) {
					exp = vals[j]
				}
			}
			if deleted >= 0 && eqBytes(keys[deleted], keys[i]) {
				exp = nil
			}
			got, err := tr.Get(keys[i])
			verifAssert(err == nil, "get without error")
			verifAssert(eqBytes(got, exp), "get returns the last value written")
		}
	}
	for i := 0; i < 3; i++ {
		verifAssert(tr.Update(keys[i], vals[i]) == nil, "update ok")
		check(i, -1)
	}
	verifAssert(tr.Delete(keys[1]) == nil, "delete ok")
	check(2, 1)
	verifAssert(tr.Commit() == nil, "commit ok")
	check(2, 1)
	root, _ := tr.RootHash()
	ch, err := tr.GetAllLeavesOnChannel(root)
	verifAssert(err == nil, "leaves channel")
	seen := [3]int{}
	n := 0
	for leaf := range ch {
		n++
		hit := false
		for i := 0; i < 3; i++ {
			if eqBytes(leaf.Key(), keys[i]) {
				hit = true
				seen[i]++
				got, _ := tr.Get(keys[i])
				verifAssert(eqBytes(leaf.Value(), got), "leaf value equals the stored value")
			}
		}
		verifAssert(hit, "every leaf has one of the original keys")
	}
	live := 0
	for i := 0; i < 3; i++ {
		got, _ := tr.Get(keys[i])
		if len(got) > 0 {
			first := true
			for j := 0; j < i; j++ {
				if eqBytes(keys[j], keys[i]) {
					first = false
				}
			}
			if first {
				live++
			}
			verifAssert(seen[i] >= 1, "live key is enumerated")
		} else {
			verifAssert(seen[i] == 0, "deleted key is not enumerated")
		}
	}
	verifAssert(n == live, "each live pair enumerated exactly once")

	// the map behaviour continues after the commit, on the committed trie (nodes beyond the in-memory level are
	// collapsed) and on a trie recreated from the root (every node collapsed)
	rec, err := tr.Recreate(root)
	verifAssert(err == nil && rec != nil, "recreate from the committed root")
	before := make([][]byte, 3)
	for i := 0; i < 3; i++ {
		before[i], _ = tr.Get(keys[i])
	}
	k4 := verifKey("k4", kl)
	v4 := verifBytes("v4", 1)
	verifAssert(tr.Update(k4, v4) == nil, "update after commit ok")
	verifAssert(rec.Update(k4, v4) == nil, "update on the recreated trie ok")
	for i := 0; i < 3; i++ {
		exp := before[i]
		if eqBytes(keys[i], k4) {
			exp = v4
		}
		g1, e1 := tr.Get(keys[i])
		g2, e2 := rec.Get(keys[i])
		verifAssert(e1 == nil && eqBytes(g1, exp), "after the commit: get returns the last value written")
		verifAssert(e2 == nil && eqBytes(g2, exp), "recreated trie: get returns the last value written")
	}
	g1, _ := tr.Get(k4)
	g2, _ := rec.Get(k4)
	verifAssert(eqBytes(g1, v4) && eqBytes(g2, v4), "the key written after the commit reads back")
	verifReach("end")
}
