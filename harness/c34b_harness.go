package metachain


func Verif_C34_excludingKnown() {
	t := &trigger{}
	t.currEpochStartRound = verifU64("currStart")
	t.roundsPerEpoch = verifU64("rpe")
	t.minRoundsBetweenEpochs = verifU64("min")
	t.nextEpochStartRound = disabledRoundForForceEpochStart
	verifAssume(t.roundsPerEpoch >= t.minRoundsBetweenEpochs)
	verifAssume(t.currEpochStartRound < 1<<62 && t.roundsPerEpoch < 1<<62)
	forced := verifU64("forced")
	verifAssume(!(forced < t.currEpochStartRound)) // known finding region excluded
	t.ForceEpochStart(forced)
	round := verifU64("round")
	verifAssume(round >= t.currEpochStartRound) // rounds are monotone
	t.Update(round, verifU64("nonce"))
	if t.isEpochStart {
		verifAssert(t.epoch == 1, "epoch+1")
		verifAssert(t.currentRound-t.prevEpochStartRound >= t.minRoundsBetweenEpochs, "min-epoch-length")
	} else {
		verifAssert(t.epoch == 0, "epoch unchanged")
	}
	verifReach("end")
}
