package economics

import (
	"math/big"

	"github.com/ElrondNetwork/elrond-go/data/transaction"
)

// Affordability of the estimated gas limit: fee(tx with the estimated limit) <= balance - value.
func Verif_C22_affordable() {
	ed := verifEconomics()
	value := verifBig("value")
	balance := verifBig("balance")
	verifAssume(value.Sign() >= 0 && balance.Sign() >= 0)
	verifAssume(balance.Cmp(big.NewInt(0).Lsh(big.NewInt(1), 100)) < 0)
	tx := &transaction.Transaction{GasPrice: verifU64("gasPrice"), GasLimit: verifU64("gasLimit"), Value: value, Data: make([]byte, verifChoice("dataLen", 2))}
	verifAssume(tx.GasPrice >= 1 && tx.GasPrice < 1<<62)
	// the processing price must be at least 1 (otherwise the estimate divides by zero: reported separately)
	verifAssume(!ed.flagGasPriceModifier.IsSet() || ed.GasPriceForProcessing(tx) >= 1)
	limit, err := ed.ComputeGasLimitBasedOnBalance(tx, balance)
	if err != nil {
		verifReach("insufficient funds")
		return
	}
	tx2 := &transaction.Transaction{GasPrice: tx.GasPrice, GasLimit: limit, Value: value, Data: tx.Data}
	fee := ed.ComputeTxFee(tx2)
	avail := big.NewInt(0).Sub(balance, value)
	verifAssert(fee.Cmp(avail) <= 0, "fee with the estimated gas limit <= balance - value")
	verifReach("estimated")
}

var verifC22Prices = []struct {
	price    uint64
	modifier float64
}{{1000000001, 0.01}, {1000000000, 0.01}, {7, 0.5}, {5, 1}, {1<<40 + 3, 0.013}, {1<<61 + 1, 0.25}, {333, 0.01}}

// Same claim with the gas price and the processing price drawn from concrete pairs (price, modifier), so that every product and quotient is by a constant and the solver decides the
// rounding exactly; balance, value and the fee configuration stay symbolic.
func Verif_C22_affordableConcretePrices() {
	ed := verifEconomics()
	pair := verifC22Prices[verifChoice("pricePair", len(verifC22Prices))]
	ed.gasPriceModifier = pair.modifier // concrete: the real GasPriceForProcessing runs on concrete floats
	value := verifBig("value")
	balance := verifBig("balance")
	verifAssume(value.Sign() >= 0 && balance.Sign() >= 0)
	verifAssume(balance.Cmp(big.NewInt(0).Lsh(big.NewInt(1), 100)) < 0)
	tx := &transaction.Transaction{GasPrice: pair.price, GasLimit: verifU64("gasLimit"), Value: value, Data: make([]byte, verifChoice("dataLen", 2))}
	verifAssume(!ed.flagGasPriceModifier.IsSet() || ed.GasPriceForProcessing(tx) >= 1)
	limit, err := ed.ComputeGasLimitBasedOnBalance(tx, balance)
	if err != nil {
		verifReach("insufficient funds")
		return
	}
	tx2 := &transaction.Transaction{GasPrice: tx.GasPrice, GasLimit: limit, Value: value, Data: tx.Data}
	fee := ed.ComputeTxFee(tx2)
	avail := big.NewInt(0).Sub(balance, value)
	verifAssert(fee.Cmp(avail) <= 0, "fee with the estimated gas limit <= balance - value")
	verifReach("estimated")
}
