package factory

import (
	"bytes"

	"github.com/ElrondNetwork/elrond-go/data/block"
	"github.com/ElrondNetwork/elrond-go/data/transaction"
	"github.com/ElrondNetwork/elrond-go/marshal"
)

type verifC18Msg interface {
	Equal(that interface{}) bool
}

// Two arbitrary buffers through the real size-checking unmarshalizer (what the interceptors use). If both
// are accepted and decode to equal content they must be the same bytes - otherwise the same signed
// content exists under two hashes (the hash is taken over the received bytes).
func verifC18(mk func() verifC18Msg) {
	n1 := verifParam("len1")
	n2 := verifParam("len2")
	b1 := verifBytes("b1", n1)
	b2 := verifBytes("b2", n2)
	verifAssume(!bytes.Equal(b1, b2))
	m := marshal.NewSizeCheckUnmarshalizer(&marshal.GogoProtoMarshalizer{}, uint32(verifParam("delta")))
	o1, o2 := mk(), mk()
	if m.Unmarshal(o1, b1) != nil {
		verifReach("first rejected")
		return
	}
	// an accepted buffer is at most delta percent longer than the canonical encoding of what it decodes to
	if sz, ok := o1.(marshal.Sizer); ok {
		verifAssert(n1*100 <= sz.Size()*(100+verifParam("delta")), "an accepted buffer is at most delta percent longer than the re-encoded content")
	}
	if m.Unmarshal(o2, b2) != nil {
		verifReach("second rejected")
		return
	}
	verifReach("both accepted")
	if t1, ok := o1.(*transaction.Transaction); ok {
		// BigIntCaster.Equal(a, b) dereferences b when a is set and b is not (a.Cmp(nil) panics): a decoded
		// transaction without the value field cannot be compared with one that has it - different content anyway
		if (t1.Value == nil) != (o2.(*transaction.Transaction).Value == nil) {
			verifReach("different content")
			return
		}
	}
	if !o1.Equal(o2) {
		verifReach("different content")
		return
	}
	// known finding C18-noncanonical-encoding: protobuf decoding is not canonical (field order, repeated
	// scalar fields where the last one wins, unknown fields within the size delta) and nothing re-encodes
	verifKnown("C18-noncanonical-encoding", true)
	verifAssert(false, "two different accepted encodings decode to the same content (two hashes for one signed content)")
}

func Verif_C18_Transaction() { verifC18(func() verifC18Msg { return &transaction.Transaction{} }) }
func Verif_C18_MiniBlock()   { verifC18(func() verifC18Msg { return &block.MiniBlock{} }) }
func Verif_C18_MiniBlockHeader() {
	verifC18(func() verifC18Msg { return &block.MiniBlockHeader{} })
}
