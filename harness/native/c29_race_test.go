package headersCache

import (
	"sync"
	"testing"

	"github.com/ElrondNetwork/elrond-go/config"
	"github.com/ElrondNetwork/elrond-go/data"
	"github.com/ElrondNetwork/elrond-go/data/block"
)

// Native confirmation of a lockset finding: every pair of pool operations runs concurrently under
// the Go race detector.
func TestVerifRace(t *testing.T) {
	ops := []func(p *headersPool, i int){
		func(p *headersPool, i int) {
			p.AddHeader([]byte{byte(i), byte(i >> 8)}, &block.Header{Nonce: uint64(i % 7), ShardID: uint32(i % 5)})
		},
		func(p *headersPool, i int) { p.RemoveHeaderByHash([]byte{byte(i), byte(i >> 8)}) },
		func(p *headersPool, i int) { p.RemoveHeaderByNonceAndShardId(uint64(i%7), uint32(i%5)) },
		func(p *headersPool, i int) { _, _, _ = p.GetHeadersByNonceAndShardId(uint64(i%7), uint32(i%5)) },
		func(p *headersPool, i int) { _, _ = p.GetHeaderByHash([]byte{byte(i), byte(i >> 8)}) },
		func(p *headersPool, i int) { _ = p.GetNumHeaders(uint32(i)) },
		func(p *headersPool, i int) { _ = p.Nonces(uint32(i)) },
		func(p *headersPool, i int) { _ = p.Len(); _ = p.MaxSize() },
		func(p *headersPool, i int) {
			if i%40 == 0 {
				p.Clear()
			}
		},
		func(p *headersPool, i int) {
			if i%40 == 0 {
				p.RegisterHandler(func(data.HeaderHandler, []byte) {})
			}
		},
	}
	for x := range ops {
		for y := x; y < len(ops); y++ {
			p, _ := NewHeadersPool(config.HeadersPoolConfig{MaxHeadersPerShard: 20, NumElementsToRemoveOnEviction: 2})
			var wg sync.WaitGroup
			wg.Add(2)
			go func() { defer wg.Done(); for i := 0; i < 200; i++ { ops[x](p, i) } }()
			go func() { defer wg.Done(); for i := 0; i < 200; i++ { ops[y](p, 200+i) } }()
			wg.Wait()
		}
	}
}
