package bloom

import (
	"sync"
	"testing"
)

// Native confirmation of a lockset finding: every pair of Bloom operations runs concurrently under
// the Go race detector.
func TestVerifRace(t *testing.T) {
	ops := []func(b *Bloom, i int){
		func(b *Bloom, i int) { b.Add([]byte{byte(i)}) },
		func(b *Bloom, i int) { _ = b.MayContain([]byte{byte(i)}) },
		func(b *Bloom, i int) {
			if i%50 == 0 {
				b.Clear()
			}
		},
	}
	for x := range ops {
		for y := x; y < len(ops); y++ {
			b := NewDefaultFilter()
			var wg sync.WaitGroup
			wg.Add(2)
			go func() { defer wg.Done(); for i := 0; i < 200; i++ { ops[x](b, i) } }()
			go func() { defer wg.Done(); for i := 0; i < 200; i++ { ops[y](b, i) } }()
			wg.Wait()
		}
	}
}
