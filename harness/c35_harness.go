package metachain

import (
	"errors"
	"math/big"

	"github.com/ElrondNetwork/elrond-go/core"
	"github.com/ElrondNetwork/elrond-go/data/block"
	"github.com/ElrondNetwork/elrond-go/data/state"
	"github.com/ElrondNetwork/elrond-go/dataRetriever/dataPool"
	"github.com/ElrondNetwork/elrond-go/process"
	"github.com/ElrondNetwork/elrond-go/sharding"
	vmcommon "github.com/ElrondNetwork/elrond-vm-common"
)

// ---- environment -------------------------------------------------------------------------------

// 2 shards + metachain; the shard of an address is its last byte (0, 1, 0xff = metachain)
type verifC35Coordinator struct{ sharding.Coordinator }

func (verifC35Coordinator) NumberOfShards() uint32 { return 2 }
func (verifC35Coordinator) SelfId() uint32         { return core.MetachainShardId }
func (verifC35Coordinator) ComputeId(address []byte) uint32 {
	switch address[len(address)-1] {
	case 0:
		return 0
	case 1:
		return 1
	}
	return core.MetachainShardId
}
func (verifC35Coordinator) IsInterfaceNil() bool { return false }

var (
	verifC35AddrShard0   = []byte{'a', 'd', 'd', 'r', 0}
	verifC35AddrShard1   = []byte{'a', 'd', 'd', 'r', 1}
	verifC35AddrMeta     = []byte{'m', 'e', 't', 'a', 0xff}
	verifC35AddrDelegSC  = []byte{'d', 'l', 'g', 't', 0xff}
	verifC35AddrProtocol = []byte{'p', 'r', 'o', 't', 1}
)

// hasher / marshalizer: every reward transaction gets its own concrete hash (the real hash of the real
// encoding is injective on distinct transactions; what is hashed is not the subject here)
type verifC35Hasher struct{ n *int }

func (h verifC35Hasher) Compute(s string) []byte {
	*h.n++
	return []byte{'h', byte('0' + *h.n)}
}
func (verifC35Hasher) Size() int            { return 2 }
func (verifC35Hasher) IsInterfaceNil() bool { return false }

type verifC35Marshalizer struct{}

func (verifC35Marshalizer) Marshal(obj interface{}) ([]byte, error)      { return []byte("m"), nil }
func (verifC35Marshalizer) Unmarshal(obj interface{}, buff []byte) error { return nil }
func (verifC35Marshalizer) IsInterfaceNil() bool                         { return false }

type verifC35NodesConfig struct{ shard, meta int }

func (c verifC35NodesConfig) ConsensusGroupSize(shardID uint32) int {
	if shardID == core.MetachainShardId {
		return c.meta
	}
	return c.shard
}
func (verifC35NodesConfig) IsInterfaceNil() bool { return false }

type verifC35Staking struct {
	totalStake, totalTopUp *big.Int
	topUp                  map[string]*big.Int
}

func (s *verifC35Staking) GetTotalStakeEligibleNodes() *big.Int      { return s.totalStake }
func (s *verifC35Staking) GetTotalTopUpStakeEligibleNodes() *big.Int { return s.totalTopUp }
func (s *verifC35Staking) GetNodeStakedTopUp(blsKey []byte) (*big.Int, error) {
	v, ok := s.topUp[string(blsKey)]
	if !ok {
		return nil, errors.New("owner not found")
	}
	return v, nil
}
func (s *verifC35Staking) PrepareStakingDataForRewards(keys map[uint32][][]byte) error { return nil }
func (s *verifC35Staking) FillValidatorInfo(blsKey []byte) error                       { return nil }
func (s *verifC35Staking) ComputeUnQualifiedNodes(validatorInfos map[uint32][]*state.ValidatorInfo) ([][]byte, map[string][][]byte, error) {
	return nil, nil, nil
}
func (s *verifC35Staking) Clean()               {}
func (s *verifC35Staking) IsInterfaceNil() bool { return s == nil }

type verifC35Economics struct {
	blocks          uint64
	blocksPerShard  map[uint32]uint64
	leaderFees      *big.Int
	rewardsTotal    *big.Int
	rewardsForBlock *big.Int
}

func (e *verifC35Economics) SetNumberOfBlocks(nbBlocks uint64)                          {}
func (e *verifC35Economics) SetNumberOfBlocksPerShard(blocksPerShard map[uint32]uint64) {}
func (e *verifC35Economics) SetLeadersFees(fees *big.Int)                               {}
func (e *verifC35Economics) SetRewardsToBeDistributed(rewards *big.Int)                 {}
func (e *verifC35Economics) SetRewardsToBeDistributedForBlocks(rewards *big.Int)        {}
func (e *verifC35Economics) NumberOfBlocks() uint64                                     { return e.blocks }
func (e *verifC35Economics) NumberOfBlocksPerShard() map[uint32]uint64                  { return e.blocksPerShard }
func (e *verifC35Economics) LeaderFees() *big.Int                                       { return e.leaderFees }
func (e *verifC35Economics) RewardsToBeDistributed() *big.Int                           { return e.rewardsTotal }
func (e *verifC35Economics) RewardsToBeDistributedForBlocks() *big.Int                  { return e.rewardsForBlock }
func (e *verifC35Economics) IsInterfaceNil() bool                                       { return e == nil }

type verifC35Rewards struct{ process.RewardsHandler }

func (verifC35Rewards) RewardsTopUpFactor() float64         { return 0.25 }
func (verifC35Rewards) RewardsTopUpGradientPoint() *big.Int { return big.NewInt(3000000) }
func (verifC35Rewards) LeaderPercentage() float64           { return 0.1 }
func (verifC35Rewards) IsInterfaceNil() bool                { return false }

// accounts: only the delegation contract address exists and carries the delegation marker
type verifC35Tracker struct{ state.DataTrieTracker }

func (verifC35Tracker) RetrieveValue(key []byte) ([]byte, error) { return []byte{1}, nil }

type verifC35Account struct{ state.UserAccountHandler }

func (verifC35Account) DataTrieTracker() state.DataTrieTracker { return verifC35Tracker{} }

type verifC35Accounts struct{ state.AccountsAdapter }

func (verifC35Accounts) GetExistingAccount(address []byte) (vmcommon.AccountHandler, error) {
	if string(address) == string(verifC35AddrDelegSC) {
		return verifC35Account{}, nil
	}
	return nil, state.ErrAccNotFound
}
func (verifC35Accounts) IsInterfaceNil() bool { return false }

// contract of computeTopUpRewards (big.Float and atan are not encodable): some amount between zero and
// the amount to distribute (k = factor * total with factor <= 1, times (2/pi)*atan(..) < 1)
func verifSummaryTopUpRewards(rc *rewardsCreatorV2, totalToDistribute *big.Int, totalTopUpEligible *big.Int) *big.Int {
	if totalToDistribute.Sign() <= 0 || totalTopUpEligible.Sign() <= 0 {
		return big.NewInt(0)
	}
	t := verifBig("topUpRewards")
	verifAssume(t.Sign() >= 0)
	verifAssume(t.Cmp(totalToDistribute) <= 0)
	return t
}

func verifC35Nat(name string, bits uint) *big.Int {
	v := verifBig(name)
	verifAssume(v.Sign() >= 0)
	verifAssume(v.Cmp(new(big.Int).Lsh(big.NewInt(1), bits)) < 0)
	return v
}

// Count configurations (consensus sizes, blocks per shard, blocks a node was selected in, top-up stakes in
// units): concrete, so that every product and quotient has a constant factor; all amounts stay symbolic.
type verifC35Counts struct {
	consensusShard, consensusMeta int
	blocks0, blocks1, blocksMeta  uint64
	selected                      [3]uint32
	topUp                         [3]int64
}

var verifC35Configs = []verifC35Counts{
	{3, 2, 5, 7, 4, [3]uint32{7, 3, 2}, [3]int64{5, 11, 1}},
	{1, 1, 1, 0, 1, [3]uint32{1, 1, 1}, [3]int64{0, 0, 0}},                                              // nobody has a top-up
	{2, 3, 0, 0, 0, [3]uint32{0, 0, 0}, [3]int64{3, 4, 5}},                                              // no blocks at all
	{7, 5, 13, 11, 17, [3]uint32{64, 85, 20}, [3]int64{1000003, 7, 13}},                                 // rounding-heavy
	{3, 3, 2, 2, 2, [3]uint32{6, 0, 0}, [3]int64{9, 9, 9}},                                              // nodes never selected
	{400, 400, 14400, 14400, 14400, [3]uint32{14400, 14000, 9000}, [3]int64{2500000000000000000, 1, 0}}, // production-like sizes
}

func verifC35Base(hashCount *int, delegationEnabled bool, cfg verifC35Counts) *baseRewardsCreator {
	pool, _ := dataPool.NewCurrentBlockPool()
	enableEpoch := uint32(10)
	if delegationEnabled {
		enableEpoch = 0
	}
	return &baseRewardsCreator{currTxs: pool, shardCoordinator: verifC35Coordinator{}, protocolSustainabilityAddress: verifC35AddrProtocol,
		nodesConfigProvider: verifC35NodesConfig{shard: cfg.consensusShard, meta: cfg.consensusMeta},
		hasher:              verifC35Hasher{n: hashCount}, marshalizer: verifC35Marshalizer{}, mapBaseRewardsPerBlockPerValidator: map[uint32]*big.Int{},
		accumulatedRewards: big.NewInt(0), protocolSustainabilityValue: big.NewInt(0), delegationSystemSCEnableEpoch: enableEpoch,
		userAccountsDB: verifC35Accounts{}, rewardsFix1EnableEpoch: 9}
}

// validators: the first one anywhere (shard 0 or metachain; eligible or waiting; online or offline; rewards to
// a shard-0 address, a shard-1 address, a metachain user address or a metachain delegation contract); the
// others eligible, in shard 0 or on the metachain, online or offline, rewards to the shard-0 address or to
// the delegation contract (so that two nodes can share a reward address). Fees are arbitrary amounts. The
// number of blocks a node was selected in is capped by blocks x consensus size of its shard, shared by the
// nodes of the shard (consistency of the statistics with the block counts).
func verifC35Validators(n int, cfg verifC35Counts) (map[uint32][]*state.ValidatorInfo, *big.Int) {
	res := map[uint32][]*state.ValidatorInfo{0: nil, 1: nil, core.MetachainShardId: nil} // (every shard has an entry, as in the validator statistics)
	room := map[uint32]uint64{0: cfg.blocks0 * uint64(cfg.consensusShard), core.MetachainShardId: cfg.blocksMeta * uint64(cfg.consensusMeta)}
	sumFees := big.NewInt(0)
	wide := verifParam("wide") == 1 // 0: only the first validator may be on the metachain, nobody is waiting
	for i := 0; i < n; i++ {
		tag := "v" + string(rune('0'+i))
		shard := uint32(0)
		if (i == 0 || wide) && verifBool(tag+"onMeta") {
			shard = core.MetachainShardId
		}
		list := string(core.EligibleList)
		addrs := [][]byte{verifC35AddrShard0, verifC35AddrDelegSC}
		if i == 0 {
			addrs = [][]byte{verifC35AddrShard0, verifC35AddrShard1, verifC35AddrMeta, verifC35AddrDelegSC}
			if wide && verifBool(tag+"waiting") {
				list = string(core.WaitingList)
			}
		}
		sel := uint64(cfg.selected[i])
		if sel > room[shard] {
			sel = room[shard]
		}
		room[shard] -= sel
		v := &state.ValidatorInfo{PublicKey: []byte{'k', byte('0' + i)}, ShardId: shard, List: list,
			RewardAddress: addrs[verifChoice(tag+"rewardAddress", len(addrs))], ValidatorFailure: 1,
			NumSelectedInSuccessBlocks: uint32(sel), AccumulatedFees: verifC35Nat(tag+"fees", 90)}
		if verifBool(tag + "online") {
			v.ValidatorSuccess = 1
		}
		res[shard] = append(res[shard], v)
		sumFees.Add(sumFees, v.AccumulatedFees)
	}
	return res, sumFees
}

type verifC35Tx struct {
	value *big.Int
	rcv   []byte
}

func verifC35Collect(brc *baseRewardsCreator, mbs block.MiniBlockSlice) []verifC35Tx {
	var out []verifC35Tx
	for _, mb := range mbs {
		verifAssert(mb.Type == block.RewardsBlock && mb.SenderShardID == core.MetachainShardId, "rewards miniblocks come from the metachain")
		for _, h := range mb.TxHashes {
			tx, err := brc.currTxs.GetTx(h)
			verifAssert(err == nil, "every listed reward transaction exists")
			if err != nil {
				continue
			}
			dest := brc.shardCoordinator.ComputeId(tx.GetRcvAddr())
			verifAssert(dest == mb.ReceiverShardID, "a reward is listed in the miniblock of its destination shard")
			out = append(out, verifC35Tx{value: tx.GetValue(), rcv: tx.GetRcvAddr()})
		}
	}
	return out
}

func verifC35CheckTxs(txs []verifC35Tx, delegationEnabled bool, expected *big.Int) {
	sum := big.NewInt(0)
	for _, tx := range txs {
		sum.Add(sum, tx.value)
		verifAssert(tx.value.Sign() > 0, "no reward transaction has a zero or negative value")
		onMeta := tx.rcv[len(tx.rcv)-1] == 0xff
		verifAssert(!onMeta || (delegationEnabled && string(tx.rcv) == string(verifC35AddrDelegSC)), "rewards go only to shard addresses or to delegation contracts")
	}
	verifAssert(sum.Cmp(expected) == 0, "the rewards created add up exactly to the amount to be distributed")
}

// rewardsCreatorV2.CreateRewardsMiniBlocks: protocol sustainability + rewards for blocks + leader fees are all
// handed out, remainders and unassignable rewards go to the protocol sustainability address.
func Verif_C35_rewardsV2() {
	n := verifParam("validators")
	cfg := verifC35Configs[verifChoice("counts", verifParam("configs"))]
	hashes := 0
	delegationEnabled := verifBool("delegationEnabled")
	brc := verifC35Base(&hashes, delegationEnabled, cfg)
	vals, sumFees := verifC35Validators(n, cfg)
	staking := &verifC35Staking{totalStake: verifC35Nat("totalStake", 100), totalTopUp: verifC35Nat("totalTopUp", 100), topUp: map[string]*big.Int{}}
	for i := 0; i < n; i++ {
		staking.topUp[string([]byte{'k', byte('0' + i)})] = big.NewInt(cfg.topUp[i])
	}
	eco := &verifC35Economics{blocks: cfg.blocks0 + cfg.blocks1 + cfg.blocksMeta, blocksPerShard: map[uint32]uint64{0: cfg.blocks0, 1: cfg.blocks1, core.MetachainShardId: cfg.blocksMeta},
		leaderFees: verifC35Nat("leaderFees", 100), rewardsForBlock: verifC35Nat("rewardsForBlocks", 100)}
	verifAssume(sumFees.Cmp(eco.leaderFees) <= 0) // the fees of the validators are part of the leader fees of the epoch
	protocol := verifC35Nat("protocolSustainability", 100)
	verifAssume(protocol.Sign() > 0)
	eco.rewardsTotal = big.NewInt(0).Add(big.NewInt(0).Add(protocol, eco.rewardsForBlock), eco.leaderFees)
	rc := &rewardsCreatorV2{baseRewardsCreator: brc, stakingDataProvider: staking, economicsDataProvider: eco, rewardsHandler: verifC35Rewards{}}

	meta := &block.MetaBlock{Epoch: 5, Round: 100, DevFeesInEpoch: big.NewInt(0), AccumulatedFeesInEpoch: big.NewInt(0)}
	computed := &block.Economics{TotalToDistribute: eco.rewardsTotal, RewardsForProtocolSustainability: protocol, RewardsPerBlock: big.NewInt(0)}
	mbs, err := rc.CreateRewardsMiniBlocks(meta, vals, computed)
	verifAssert(err == nil, "rewards created")
	if err != nil {
		return
	}
	txs := verifC35Collect(brc, mbs)
	verifC35CheckTxs(txs, delegationEnabled, eco.rewardsTotal)
	verifAssert(rc.GetProtocolSustainabilityRewards().Cmp(protocol) >= 0, "the protocol sustainability reward is at least the computed one")
	verifReach("end")
}

// The first-generation rewards creator (used until staking v2): the total is TotalToDistribute minus the
// developer fees, rewards per block per node come from the economics' RewardsPerBlock.
func Verif_C35_rewardsV1() {
	n := verifParam("validators")
	cfg := verifC35Configs[verifChoice("counts", verifParam("configs"))]
	hashes := 0
	delegationEnabled := verifBool("delegationEnabled")
	brc := verifC35Base(&hashes, delegationEnabled, cfg)
	brc.rewardsFix1EnableEpoch = uint32(verifChoice("fix1EnableEpoch", 2) * 9) // epoch 5: fix enabled (0) or not (9)
	vals, _ := verifC35Validators(n, cfg)
	rc := &rewardsCreator{baseRewardsCreator: brc}
	total := verifC35Nat("totalToDistribute", 100)
	devFees := verifC35Nat("devFees", 100)
	protocol := verifC35Nat("protocolSustainability", 100)
	perBlock := verifC35Nat("rewardsPerBlock", 90)
	verifAssume(protocol.Sign() > 0)
	verifAssume(devFees.Cmp(total) <= 0)
	// economics consistent with the validator set: what the protocol and the validators are owed fits in the total
	owed := big.NewInt(0).Set(protocol)
	offlineShare := big.NewInt(0)
	for _, list := range vals {
		for _, v := range list {
			cs := cfg.consensusShard
			if v.ShardId == core.MetachainShardId {
				cs = cfg.consensusMeta
			}
			perNode := big.NewInt(0).Div(perBlock, big.NewInt(int64(cs)))
			share := perNode.Mul(perNode, big.NewInt(int64(v.NumSelectedInSuccessBlocks)))
			owed.Add(owed, share)
			owed.Add(owed, v.AccumulatedFees)
			if v.LeaderSuccess == 0 && v.ValidatorSuccess == 0 {
				offlineShare.Add(offlineShare, share)
			}
		}
	}
	verifAssume(owed.Cmp(big.NewInt(0).Sub(total, devFees)) <= 0)
	// known finding: once "rewards fix 1" is active, the share of a validator that was selected but never signed
	// is added to the protocol sustainability reward without being counted as handed out, so the final
	// "difference" adds it a second time: more than the total is created
	verifKnown("C35-v1-offline-share-counted-twice", brc.rewardsFix1EnableEpoch == 0 && offlineShare.Sign() > 0)
	eco := block.Economics{TotalToDistribute: total, RewardsForProtocolSustainability: protocol, RewardsPerBlock: perBlock}
	meta := &block.MetaBlock{Epoch: 5, Round: 100, DevFeesInEpoch: devFees, AccumulatedFeesInEpoch: big.NewInt(0), EpochStart: block.EpochStart{Economics: eco}}
	mbs, err := rc.CreateRewardsMiniBlocks(meta, vals, &eco)
	verifAssert(err == nil, "rewards created")
	if err != nil {
		return
	}
	txs := verifC35Collect(brc, mbs)
	verifC35CheckTxs(txs, delegationEnabled, big.NewInt(0).Sub(total, devFees))
	verifReach("end")
}
