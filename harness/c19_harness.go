package block

import (
	"github.com/ElrondNetwork/elrond-go/data/block"
	"github.com/ElrondNetwork/elrond-go/hashing/blake2b"
	"github.com/ElrondNetwork/elrond-go/marshal"
)

func verifEqB(a, b []byte) bool {
	if len(a) != len(b) {
		return false
	}
	r := true
	for i := range a {
		r = r && a[i] == b[i]
	}
	return r
}

func verifMbHash(bp *baseProcessor, mb *block.MiniBlock) []byte {
	buff, _ := bp.marshalizer.Marshal(mb)
	return bp.hasher.Compute(string(buff))
}

func verifMb(tag string) *block.MiniBlock {
	ntx := 1
	if tag == "b" {
		ntx = verifChoice(tag+"ntx", verifParam("maxTx")+1)
	}
	mb := &block.MiniBlock{
		// values 1..2: always encoded with the same length, so the protobuf encoder does not fork on them
		SenderShardID:   1 + uint32(verifU8(tag+"snd")&1),
		ReceiverShardID: 1 + uint32(verifU8(tag+"rcv")&1),
		Type:            1 + block.Type(verifU8(tag+"type")&1),
	}
	for i := 0; i < ntx; i++ {
		mb.TxHashes = append(mb.TxHashes, verifBytes(tag+"tx", 1))
	}
	return mb
}

// Header entries take their hash from a pool: the body's miniblocks, one further (symbolic) miniblock
// that is not in the body, or junk. All other header fields are independent symbolic values.
func Verif_C19_correlation() {
	bp := &baseProcessor{marshalizer: &marshal.GogoProtoMarshalizer{}, hasher: blake2b.NewBlake2b()}
	nb := verifParam("minBody") + verifChoice("nb", verifParam("maxBody")-verifParam("minBody")+1)
	nh := verifParam("minHdr") + verifChoice("nh", verifParam("maxHdr")-verifParam("minHdr")+1)
	body := &block.Body{}
	var pool [][]byte
	for i := 0; i < nb; i++ {
		mb := verifMb("b")
		body.MiniBlocks = append(body.MiniBlocks, mb)
		pool = append(pool, verifMbHash(bp, mb))
	}
	pool = append(pool, verifMbHash(bp, verifMb("x")))
	pool = append(pool, []byte("junkjunkjunkjunkjunkjunkjunkjunk"))
	hdrs := make([]block.MiniBlockHeader, nh)
	for i := range hdrs {
		// symbolic selection from the pool, byte-wise (no path fork per selection)
		sel := verifU8("hsel")
		verifAssume(int(sel) < len(pool))
		h := make([]byte, 32)
		for j := range h {
			for k := range pool {
				h[j] = verifIteByte(int(sel) == k, pool[k][j], h[j])
			}
		}
		hdrs[i] = block.MiniBlockHeader{
			Hash:            h,
			SenderShardID:   1 + uint32(verifU8("hsnd")&1),
			ReceiverShardID: 1 + uint32(verifU8("hrcv")&1),
			TxCount:         uint32(verifU8("hcount") & 3),
			Type:            1 + block.Type(verifU8("htype")&1),
		}
	}
	err := bp.checkHeaderBodyCorrelation(hdrs, body)
	if err == nil {
		verifAssert(nh == nb, "accepted with a different number of miniblocks")
		match := func(h int, b int) bool {
			mb := body.MiniBlocks[b]
			return verifEqB(hdrs[h].Hash, pool[b]) && hdrs[h].SenderShardID == mb.SenderShardID &&
				hdrs[h].ReceiverShardID == mb.ReceiverShardID && hdrs[h].Type == mb.Type && hdrs[h].TxCount == uint32(len(mb.TxHashes))
		}
		if nh == nb {
			// a bijection header entry <-> body miniblock must exist (n <= 3: enumerate permutations)
			ok := false
			switch nb {
			case 0:
				ok = true
			case 1:
				ok = match(0, 0)
			case 2:
				ok = (match(0, 0) && match(1, 1)) || (match(0, 1) && match(1, 0))
			case 3:
				perms := [][3]int{{0, 1, 2}, {0, 2, 1}, {1, 0, 2}, {1, 2, 0}, {2, 0, 1}, {2, 1, 0}}
				for _, p := range perms {
					ok = ok || (match(0, p[0]) && match(1, p[1]) && match(2, p[2]))
				}
			}
			verifAssert(ok, "accepted body is not a one-to-one match of the header's miniblocks")
		}
		verifReach("accepted")
	} else {
		verifReach("rejected")
	}
}
