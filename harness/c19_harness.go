package block

import (
	"github.com/ElrondNetwork/elrond-go/data/block"
	"github.com/ElrondNetwork/elrond-go/hashing/blake2b"
	"github.com/ElrondNetwork/elrond-go/marshal"
)


func eqB(a, b []byte) bool {
	if len(a) != len(b) {
		return false
	}
	r := true
	for i := range a {
		r = r && a[i] == b[i]
	}
	return r
}

func Verif_C19_correlation() {
	bp := &baseProcessor{marshalizer: &marshal.GogoProtoMarshalizer{}, hasher: blake2b.NewBlake2b()}
	nb := 2
	body := &block.Body{}
	var bodyHashes [][]byte
	for i := 0; i < nb; i++ {
		mb := &block.MiniBlock{
			TxHashes:        [][]byte{verifBytes("tx", 1)},
			SenderShardID:   uint32(verifU8("snd") & 1),
			ReceiverShardID: uint32(verifU8("rcv") & 1),
			Type:            block.Type(verifU8("type") & 1),
		}
		body.MiniBlocks = append(body.MiniBlocks, mb)
		h, _ := bp.hasherCompute(mb)
		bodyHashes = append(bodyHashes, h)
	}
	hdrs := make([]block.MiniBlockHeader, 2)
	for i := range hdrs {
		hdrs[i] = block.MiniBlockHeader{
			Hash:            verifBytes("hdrHash", 32),
			SenderShardID:   uint32(verifU8("hsnd") & 1),
			ReceiverShardID: uint32(verifU8("hrcv") & 1),
			TxCount:         uint32(verifU8("hcount") & 3),
			Type:            block.Type(verifU8("htype") & 1),
		}
	}
	err := bp.checkHeaderBodyCorrelation(hdrs, body)
	if err == nil {
		match := func(h int, b int) bool {
			mb := body.MiniBlocks[b]
			return eqB(hdrs[h].Hash, bodyHashes[b]) && hdrs[h].SenderShardID == mb.SenderShardID &&
				hdrs[h].ReceiverShardID == mb.ReceiverShardID && hdrs[h].Type == mb.Type && hdrs[h].TxCount == uint32(len(mb.TxHashes))
		}
		verifAssert((match(0, 0) && match(1, 1)) || (match(0, 1) && match(1, 0)), "accepted body is a one-to-one match of the header's miniblocks")
		verifReach("accepted")
	} else {
		verifReach("rejected")
	}
}

func (bp *baseProcessor) hasherCompute(mb *block.MiniBlock) ([]byte, error) {
	buff, err := bp.marshalizer.Marshal(mb)
	if err != nil {
		return nil, err
	}
	return bp.hasher.Compute(string(buff)), nil
}
