package systemSmartContracts

import (
	"errors"
	"math/big"

	"github.com/ElrondNetwork/elrond-go/vm"
	vmcommon "github.com/ElrondNetwork/elrond-vm-common"
)

type verifC40Hook struct{ vm.BlockchainHook }

func (verifC40Hook) GetStorageData(accountAddress []byte, index []byte) ([]byte, error) {
	return nil, errors.New("no data")
}

func (verifC40Hook) GetUserAccount(address []byte) (vmcommon.UserAccountHandler, error) {
	return nil, errors.New("no account")
}

func (verifC40Hook) CurrentNonce() uint64 { return 10 }

type verifC40Parser struct{}

func (verifC40Parser) ParseData(data string) (string, [][]byte, error) { return "f", nil, nil }
func (verifC40Parser) IsInterfaceNil() bool                            { return false }

// inner system contract: writes a symbolic value under a symbolic key, transfers a symbolic amount
// away, and returns a symbolic return code
type verifC40Inner struct {
	eei    *vmContext
	key    []byte
	val    []byte
	amount *big.Int
	to     []byte
	code   vmcommon.ReturnCode
}

func (c *verifC40Inner) Execute(args *vmcommon.ContractCallInput) vmcommon.ReturnCode {
	c.eei.SetStorage(c.key, c.val)
	_ = c.eei.Transfer(c.to, args.RecipientAddr, c.amount, nil, 0)
	return c.code
}
func (c *verifC40Inner) CanUseContract() bool         { return true }
func (c *verifC40Inner) SetNewGasCost(gc vm.GasCost)  {}
func (c *verifC40Inner) IsInterfaceNil() bool         { return c == nil }

type verifC40Container struct {
	vm.SystemSCContainer
	inner vm.SystemSmartContract
}

func (c *verifC40Container) Get(key []byte) (vm.SystemSmartContract, error) { return c.inner, nil }
func (c *verifC40Container) IsInterfaceNil() bool                           { return c == nil }

func verifBalanceDelta(host *vmContext, addr []byte) *big.Int {
	acc, ok := host.outputAccounts[string(addr)]
	if !ok {
		return big.NewInt(0)
	}
	return big.NewInt(0).Set(acc.BalanceDelta)
}

func Verif_C40_failedNestedCall() {
	outer := []byte("outer-contract-address-000000000")
	innerAddr := []byte("inner-contract-address-000000000")
	third := []byte("third-party-address-000000000000")
	host := &vmContext{blockChainHook: verifC40Hook{}, inputParser: verifC40Parser{}, scAddress: outer,
		storageUpdate: map[string]map[string][]byte{}, outputAccounts: map[string]*vmcommon.OutputAccount{}}
	key := verifBytes("key", 1)
	// pre-existing state: the inner contract may already hold a value under the key; the outer one wrote its own storage
	if verifBool("innerHasOldValue") {
		host.SetStorageForAddress(innerAddr, key, verifBytes("old", 1))
	}
	host.SetStorage([]byte("o"), []byte("outer-value"))
	inner := &verifC40Inner{eei: host, key: key, val: verifBytes("new", 1), amount: verifBig("innerTransfer"), to: third}
	verifAssume(inner.amount.Sign() >= 0)
	if verifBool("innerFails") {
		inner.code = vmcommon.UserError
	}
	host.systemContracts = &verifC40Container{inner: inner}
	callValue := verifBig("callValue")
	verifAssume(callValue.Sign() >= 0)

	beforeStorage := host.GetStorageFromAddress(innerAddr, key)
	beforeOuter, beforeInner, beforeThird := verifBalanceDelta(host, outer), verifBalanceDelta(host, innerAddr), verifBalanceDelta(host, third)

	out, err := host.ExecuteOnDestContext(innerAddr, outer, callValue, []byte("f"))
	verifAssert(err == nil && out != nil, "nested call executed")
	if err == nil && out.ReturnCode != vmcommon.Ok {
		// known finding C40-failed-call-effects-kept: storage writes and transfers of the failed inner call survive
		verifKnown("C40-failed-call-effects-kept", true)
		afterStorage := host.GetStorageFromAddress(innerAddr, key)
		same := len(afterStorage) == len(beforeStorage)
		if same && len(afterStorage) == 1 {
			same = afterStorage[0] == beforeStorage[0]
		}
		verifAssert(same, "storage written by the failed inner call is not visible")
		verifAssert(verifBalanceDelta(host, outer).Cmp(beforeOuter) == 0, "caller balance unchanged after the failed call")
		verifAssert(verifBalanceDelta(host, innerAddr).Cmp(beforeInner) == 0, "callee balance unchanged after the failed call")
		verifAssert(verifBalanceDelta(host, third).Cmp(beforeThird) == 0, "transfers made by the failed inner call are not visible")
		verifReach("failed")
		return
	}
	// successful call: effects visible, caller context restored
	g := host.GetStorageFromAddress(innerAddr, key)
	verifAssert(len(g) == 1 && g[0] == inner.val[0], "storage of a successful inner call is visible")
	verifAssert(string(host.scAddress) == string(outer), "caller context restored")
	verifAssert(string(host.GetStorage([]byte("o"))) == "outer-value", "caller storage untouched")
	sum := big.NewInt(0).Add(verifBalanceDelta(host, outer), verifBalanceDelta(host, innerAddr))
	sum.Add(sum, verifBalanceDelta(host, third))
	verifAssert(sum.Sign() == 0, "transfers conserve value")
	verifReach("succeeded")
}

// Nested deployment (DeploySystemSC runs the new contract's init in the caller's environment): whatever
// the init call returns, the caller continues in its own context - its contract address is restored, its
// own storage is what it reads and writes afterwards.
func Verif_C40_deployKeepsCallerContext() {
	outer := []byte("outer-contract-address-000000000")
	newAddr := []byte("newly-deployed-address-000000000")
	third := []byte("third-party-address-000000000000")
	host := &vmContext{blockChainHook: verifC40Hook{}, inputParser: verifC40Parser{}, scAddress: outer,
		storageUpdate: map[string]map[string][]byte{}, outputAccounts: map[string]*vmcommon.OutputAccount{}}
	host.SetStorage([]byte("o"), []byte("outer-value"))
	inner := &verifC40Inner{eei: host, key: []byte("k"), val: verifBytes("new", 1), amount: big.NewInt(0), to: third}
	if verifBool("initFails") {
		inner.code = vmcommon.UserError
	}
	host.systemContracts = &verifC40Container{inner: inner}
	code, err := host.DeploySystemSC([]byte("base"), newAddr, outer, "init", big.NewInt(0), nil)
	verifAssert(err == nil, "deploy call executed")
	verifAssert(code == inner.code, "the init return code is reported")
	verifAssert(string(host.scAddress) == string(outer), "the caller's context is restored after the nested init call")
	verifAssert(string(host.GetStorage([]byte("o"))) == "outer-value", "the caller reads its own storage afterwards")
	host.SetStorage([]byte("p"), []byte("later"))
	verifAssert(string(host.GetStorageFromAddress(outer, []byte("p"))) == "later", "the caller's later writes go to its own storage")
	verifAssert(len(host.GetStorageFromAddress(newAddr, []byte("p"))) == 0, "and not to the deployed contract's storage")
	verifReach("end")
}
