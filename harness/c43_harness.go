package throttler


func Verif_C43_twoWorkers() {
	max := verifI32("max")
	verifAssume(max >= 1 && max <= 1000)
	th, _ := NewNumGoRoutinesThrottler(max)
	initial := verifI32("initial")
	verifAssume(initial >= 0 && initial <= max)
	th.counter = initial // tasks admitted earlier and still running
	running := initial
	worker := func() {
		if th.CanProcess() {
			th.StartProcessing()
			running++
			verifAssert(running <= max, "more than max tasks running")
			verifYield()
			running--
			th.EndProcessing()
		}
	}
	verifExplore()
	go worker()
	go worker()
	verifJoin()
	verifAssert(th.counter == initial, "counter restored")
	verifReach("end")
}
