package throttler

// Two or three workers run the protocol "CanProcess; StartProcessing; work; EndProcessing" on one real
// NumGoRoutinesThrottler. Scheduling points (verifYield) sit before every throttler call, so every
// interleaving of the atomic operations is explored.
func Verif_C43_workers() {
	max := verifI32("max")
	verifAssume(max >= 1 && max <= 1000)
	th, _ := NewNumGoRoutinesThrottler(max)
	initial := verifI32("initial")
	verifAssume(initial >= 0 && initial <= max)
	th.counter = initial // tasks admitted earlier and still running
	running := initial
	inWindow := 0
	overlap := false
	worker := func() {
		verifYield()
		if th.CanProcess() {
			if inWindow > 0 {
				overlap = true
			}
			inWindow++
			verifYield()
			th.StartProcessing()
			inWindow--
			running++
			// known finding C43-toctou: another worker passed CanProcess while this one was between
			// CanProcess and StartProcessing
			verifKnown("C43-toctou", overlap)
			verifAssert(running <= max, "more than max tasks running")
			verifYield()
			running--
			th.EndProcessing()
		}
	}
	n := verifParam("workers")
	for i := 0; i < n; i++ {
		verifGo(worker)
	}
	verifJoin()
	verifAssert(th.counter == initial, "counter restored")
	verifReach("end")
}
