package trie

import (
	"math/big"

	"github.com/ElrondNetwork/elrond-go/data"
	"github.com/ElrondNetwork/elrond-go/data/state"
	"github.com/ElrondNetwork/elrond-go/data/state/factory"
	"github.com/ElrondNetwork/elrond-go/data/state/storagePruningManager"
	"github.com/ElrondNetwork/elrond-go/data/state/storagePruningManager/evictionWaitingList"
	"github.com/ElrondNetwork/elrond-go/hashing/blake2b"
	"github.com/ElrondNetwork/elrond-go/marshal"
	"github.com/ElrondNetwork/elrond-go/storage"
)

// storage manager with pruning enabled; "blocked" stands for a snapshot in progress
type verifPruningTSM struct {
	verifTSM
	blocked bool
}

func (t *verifPruningTSM) IsPruningEnabled() bool { return true }
func (t *verifPruningTSM) IsPruningBlocked() bool { return t.blocked }

type verifPersister struct {
	storage.Persister
	db *verifDB
}

func (p verifPersister) Put(key, val []byte) error      { return p.db.Put(key, val) }
func (p verifPersister) Get(key []byte) ([]byte, error) { return p.db.Get(key) }
func (p verifPersister) Remove(key []byte) error        { return p.db.Remove(key) }
func (p verifPersister) Close() error                   { return nil }
func (p verifPersister) IsInterfaceNil() bool           { return false }

// one block of the chain as the block processor sees it
type verifC09Block struct {
	root, prevRoot []byte
	balances       [2]*big.Int // what the two accounts hold at this root
	stored         [2]byte     // what is stored under the data-trie key of each account (0 = nothing)
}

type verifC09Chain struct {
	adb      *state.AccountsDB
	tsm      *verifPruningTSM
	db       *verifDB
	final    verifC09Block   // last final block
	pending  []verifC09Block // non-final blocks on top of it, oldest first
	finalSet bool
}

func (c *verifC09Chain) tip() verifC09Block {
	if len(c.pending) > 0 {
		return c.pending[len(c.pending)-1]
	}
	return c.final
}

// commitBlock: the accounts change as the block says, then Commit
func (c *verifC09Chain) commitBlock(tag string) {
	prev := c.tip()
	next := verifC09Block{prevRoot: prev.root, balances: prev.balances, stored: prev.stored}
	for i := 0; i < 2; i++ {
		if (tag == "b" && i == 1) || (tag == "f" && i == 0) {
			continue // the first non-final block touches the first account only, the second final block the second one
		}
		acc, err := c.adb.LoadAccount(verifAddrs[i])
		verifAssert(err == nil, "load account")
		ua := acc.(state.UserAccountHandler)
		// balances: genesis 1 and 1; a second final block gives the second account 2; first non-final block: the first account goes to 2; second block: the first
		// account gets a SYMBOLIC value (it may bring back exactly the genesis value - decided by the solver through
		// the hash model), the second account keeps its value or changes
		nb := big.NewInt(1)
		switch {
		case tag == "f": // second final block: only the second account changes (the first account's leaf is older than the final root)
			nb = big.NewInt(int64(1 + i))
		case tag == "b":
			nb = big.NewInt(2)
		case tag == "c" && i == 0:
			nb = big.NewInt(int64(1 + verifU8(tag+"balance0")&1))
		case tag == "c":
			nb = big.NewInt(int64(2 + verifChoice(tag+"balance1", 2))) // unchanged (2) or new (3)
		case tag != "g":
			nb = big.NewInt(int64(1 + verifChoice(tag+"balance"+string(rune('0'+i)), 2)))
		}
		_ = ua.AddToBalance(big.NewInt(0).Sub(nb, ua.GetBalance()))
		next.balances[i] = nb
		if i == 0 && tag != "f" {
			// the storage of the first account: unchanged, or a value written / removed
			if v := verifChoice(tag+"storage", 3); v != 0 {
				var val []byte
				if v == 2 {
					val = []byte{'v', 2}
				}
				_ = ua.DataTrieTracker().SaveKeyValue(verifStoreKey, val)
				next.stored[i] = byte(v) & 2
			}
		}
		verifAssert(c.adb.SaveAccount(ua) == nil, "save account")
	}
	root, err := c.adb.Commit()
	verifAssert(err == nil, "commit")
	next.root = root
	c.pending = append(c.pending, next)
}

// finalizeOldest: baseProcessor.updateStateStorage for the oldest non-final block (pruning queue of size 0)
func (c *verifC09Chain) finalizeOldest() {
	if len(c.pending) == 0 {
		return
	}
	b := c.pending[0]
	c.pending = c.pending[1:]
	if string(b.root) != string(b.prevRoot) {
		c.adb.CancelPrune(b.prevRoot, data.NewRoot)
		c.adb.PruneTrie(b.prevRoot, data.OldRoot)
	}
	c.final = b
}

// rollbackNewest: baseProcessor.PruneStateOnRollback + the state goes back to the previous root
func (c *verifC09Chain) rollbackNewest() {
	if len(c.pending) == 0 {
		return
	}
	b := c.pending[len(c.pending)-1]
	c.pending = c.pending[:len(c.pending)-1]
	if string(b.root) != string(b.prevRoot) {
		c.adb.CancelPrune(b.prevRoot, data.OldRoot)
		c.adb.PruneTrie(b.root, data.NewRoot)
	}
	verifAssert(c.adb.RecreateTrie(b.prevRoot) == nil, "the state of the previous block can be recreated after a rollback")
}

// every root that is still needed (the final one and every non-final one) can be recreated and read completely
func (c *verifC09Chain) checkLive(where string) {
	tipRoot := c.tip().root
	live := append([]verifC09Block{c.final}, c.pending...)
	for _, b := range live {
		err := c.adb.RecreateTrie(b.root)
		verifAssert(err == nil, where+": the root of a block that was not pruned can be recreated")
		if err != nil {
			continue
		}
		for i := 0; i < 2; i++ {
			acc, errGet := c.adb.GetExistingAccount(verifAddrs[i])
			verifAssert(errGet == nil && acc != nil, where+": every account of a live root can be read")
			if errGet != nil || acc == nil {
				continue
			}
			ua := acc.(state.UserAccountHandler)
			verifAssert(ua.GetBalance().Cmp(b.balances[i]) == 0, where+": the account holds what it held at that root")
			val, errVal := ua.DataTrieTracker().RetrieveValue(verifStoreKey)
			if b.stored[i] == 0 {
				verifAssert(len(val) == 0, where+": nothing is stored under the key at that root")
			} else {
				verifAssert(errVal == nil && len(val) == 2 && val[1] == b.stored[i], where+": the stored value of a live root can be read")
			}
		}
	}
	verifAssert(c.adb.RecreateTrie(tipRoot) == nil, where+": back to the tip")
}

// Histories of commits, finalizations (prune of the old root) and rollbacks (cancel + prune of the new
// root), with pruning blocked and unblocked at arbitrary points: every node reachable from a root that was
// not pruned stays retrievable. Balances are arbitrary small values, so a later block may recreate exactly
// a node of an earlier one (equal hashes: decided by the solver through the injective hash model).
func Verif_C09_history() {
	c := verifC09New()
	c.checkLive("genesis")
	n := verifParam("ops")
	for i := 0; i < n; i++ {
		tag := string(rune('a' + i))
		switch verifChoice(tag+"op", 4) {
		case 0:
			c.commitBlock(tag)
		case 1:
			c.finalizeOldest()
		case 2:
			c.rollbackNewest()
		case 3:
			c.tsm.blocked = !c.tsm.blocked
		}
		c.checkLive("op")
	}
	verifReach("end")
}

type verifC09Storage interface {
	data.StorageManager
}

func verifAccountCreator() state.AccountFactory { return factory.NewAccountCreator() }

func verifC09New() *verifC09Chain {
	db := &verifDB{}
	tsm := &verifPruningTSM{verifTSM: verifTSM{db: db}}
	c := verifC09NewWith(tsm, db)
	c.tsm = tsm
	return c
}

func verifC09NewWith(tsm data.StorageManager, db *verifDB) *verifC09Chain {
	tr, _ := NewTrie(tsm, &marshal.GogoProtoMarshalizer{}, blake2b.NewBlake2b(), 5)
	ewl, err := evictionWaitingList.NewEvictionWaitingList(100, verifPersister{db: &verifDB{}}, &marshal.GogoProtoMarshalizer{})
	verifAssert(err == nil, "eviction waiting list created")
	spm, err := storagePruningManager.NewStoragePruningManager(ewl, 10)
	verifAssert(err == nil, "pruning manager created")
	adb, err := state.NewAccountsDB(tr, blake2b.NewBlake2b(), &marshal.GogoProtoMarshalizer{}, factory.NewAccountCreator(), spm)
	verifAssert(err == nil, "accounts db created")
	c := &verifC09Chain{adb: adb, db: db}
	c.final = verifC09Block{balances: [2]*big.Int{big.NewInt(0), big.NewInt(0)}}
	c.commitBlock("g")
	c.finalizeOldest()
	// a second final block, so that the genesis root is pruned and its new-hashes entry is gone
	c.commitBlock("f")
	c.finalizeOldest()
	return c
}

// Two non-final blocks on top of a final one, then any 3 of {finalize the oldest, roll back the newest,
// block / unblock pruning}, pruning possibly blocked while the second block is committed. The balances of
// the blocks are symbolic (1 or 2), so the second block may bring back exactly a node of the final state
// that the first block replaced.
func Verif_C09_twoBlocks() {
	c := verifC09New()
	c.commitBlock("b")
	if verifBool("blockedDuringSecondBlock") {
		c.tsm.blocked = true
	}
	c.commitBlock("c")
	// known finding: the second block brings the state back to exactly the root of the final block. Its new
	// hashes are then filed under the key of that older root, and cancelling / pruning the older root's entries
	// (finalization of the first block) drops the protection of, or deletes, nodes the tip still needs.
	verifKnown("C09-root-returns-to-earlier-root", eqBytes(c.pending[1].root, c.final.root))
	c.checkLive("two blocks")
	for i := 0; i < verifParam("tail"); i++ {
		switch verifChoice("tail"+string(rune('0'+i)), 3) {
		case 0:
			c.finalizeOldest()
		case 1:
			c.rollbackNewest()
		case 2:
			c.tsm.blocked = !c.tsm.blocked
		}
		c.checkLive("tail")
	}
	verifReach("end")
}
