package trie

// Root hash depends only on contents: the same pairs inserted in two orders, with a transient key
// inserted and deleted in between, an overwrite, a commit and a different in-memory level.
func Verif_C02_orderAndTransient() {
	kl := verifParam("keyLen")
	k1 := verifKey("k1", kl)
	k2 := verifKey("k2", kl)
	kt := verifKey("kt", kl)
	v1 := verifBytes("v1", 1)
	v2 := verifBytes("v2", 1)
	verifAssume(!eqBytes(k1, k2))
	verifAssume(!eqBytes(kt, k1) && !eqBytes(kt, k2))
	a, _ := verifNewTrieLevel(5)
	_ = a.Update(k1, v1)
	_ = a.Update(k2, v2)
	ra, _ := a.RootHash()

	b, _ := verifNewTrieLevel(uint(verifParam("level")))
	_ = b.Update(k2, []byte("old")) // overwritten later
	_ = b.Update(kt, []byte("tmp"))
	if verifBool("commitInBetween") {
		_ = b.Commit()
	}
	_ = b.Update(k1, v1)
	_ = b.Delete(kt)
	_ = b.Update(k2, v2)
	rb, _ := b.RootHash()
	verifAssert(eqBytes(ra, rb), "same contents give the same root hash")
	_ = b.Commit()
	rb2, _ := b.RootHash()
	verifAssert(eqBytes(ra, rb2), "commit does not change the root hash")

	// removing everything gives the empty-trie hash again
	_ = b.Delete(k1)
	_ = b.Update(k2, nil)
	re, _ := b.RootHash()
	verifAssert(eqBytes(re, EmptyTrieHash), "emptied trie reports the empty-trie hash")
	e, _ := verifNewTrieLevel(5)
	r0, _ := e.RootHash()
	verifAssert(eqBytes(r0, EmptyTrieHash), "fresh trie reports the empty-trie hash")
	verifReach("end")
}

// Three pairs in all six insertion orders give one root.
func Verif_C02_threePermutations() {
	kl := verifParam("keyLen")
	ks := [][]byte{verifKey("k1", kl), verifKey("k2", kl), verifKey("k3", kl)}
	vs := [][]byte{verifBytes("v1", 1), verifBytes("v2", 1), verifBytes("v3", 1)}
	verifAssume(!eqBytes(ks[0], ks[1]) && !eqBytes(ks[0], ks[2]) && !eqBytes(ks[1], ks[2]))
	perms := [][3]int{{0, 1, 2}, {0, 2, 1}, {1, 0, 2}, {1, 2, 0}, {2, 0, 1}, {2, 1, 0}}
	var first []byte
	for pi, p := range perms {
		t, _ := verifNewTrieLevel(5)
		for _, i := range p {
			_ = t.Update(ks[i], vs[i])
		}
		r, _ := t.RootHash()
		if pi == 0 {
			first = r
		} else {
			verifAssert(eqBytes(first, r), "insertion order does not change the root hash")
		}
	}
	verifReach("end")
}
