package capacity


type refEntry struct {
	key  int
	size int64
}

// reference LRU: most recent first; evict from the back while (len>size || bytes>cap) && len>1
type refLRU struct {
	items []refEntry
	size  int
	cap   int64
}

func (r *refLRU) find(k int) int {
	for i := range r.items {
		if r.items[i].key == k {
			return i
		}
	}
	return -1
}
func (r *refLRU) bytes() int64 {
	s := int64(0)
	for _, e := range r.items {
		s += e.size
	}
	return s
}
func (r *refLRU) touch(i int) {
	e := r.items[i]
	copy(r.items[1:i+1], r.items[:i])
	r.items[0] = e
}
func (r *refLRU) evict() {
	for len(r.items) > 1 && (len(r.items) > r.size || r.bytes() > r.cap) {
		r.items = r.items[:len(r.items)-1]
	}
}
func (r *refLRU) add(k int, sz int64) {
	if i := r.find(k); i >= 0 {
		r.items[i].size = sz
		r.touch(i)
	} else {
		r.items = append([]refEntry{{k, sz}}, r.items...)
	}
	r.evict()
}

func Verif_C28_vsReference() {
	capBytes := verifI64("cap")
	verifAssume(capBytes >= 1 && capBytes < 1<<40)
	c, _ := NewCapacityLRU(2, capBytes)
	ref := &refLRU{size: 2, cap: capBytes}
	for step := 0; step < 3; step++ {
		k := verifChoice("key", 3)
		switch verifChoice("op", 4) {
		case 0:
			sz := verifI64("size")
			verifAssume(sz >= 0 && sz < 1<<40)
			c.AddSized(k, "v", sz)
			ref.add(k, sz)
		case 1:
			sz := verifI64("size")
			verifAssume(sz >= 0 && sz < 1<<40)
			has, _ := c.AddSizedIfMissing(k, "v", sz)
			verifAssert(has == (ref.find(k) >= 0), "AddSizedIfMissing: has")
			if ref.find(k) < 0 {
				ref.add(k, sz)
			}
		case 2:
			_, ok := c.Get(k)
			i := ref.find(k)
			verifAssert(ok == (i >= 0), "Get: presence")
			if i >= 0 {
				ref.touch(i)
			}
		case 3:
			removed := c.Remove(k)
			i := ref.find(k)
			verifAssert(removed == (i >= 0), "Remove: presence")
			if i >= 0 {
				ref.items = append(ref.items[:i], ref.items[i+1:]...)
			}
		}
		keys := c.Keys() // oldest first
		verifAssert(len(keys) == len(ref.items), "same number of keys")
		if len(keys) == len(ref.items) {
			for i := range keys {
				verifAssert(keys[i].(int) == ref.items[len(ref.items)-1-i].key, "same keys in same recency order")
			}
		}
		verifAssert(int64(c.SizeInBytesContained()) == ref.bytes(), "reported bytes = sum of sizes")
	}
	verifReach("end")
}
