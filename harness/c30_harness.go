package pruning

import (
	"errors"

	"github.com/ElrondNetwork/elrond-go/data/block"
	"github.com/ElrondNetwork/elrond-go/storage"
)

// ---- environment stubs -------------------------------------------------------------------------

type verifStore struct{ m map[string][]byte }

// a persister handle over a store that survives Close/Create (like a database directory)
type verifPersister struct {
	st     *verifStore
	closed bool
}

var errVerifClosed = errors.New("closed")
var errVerifNotFound = errors.New("not found")

func (p *verifPersister) Put(key, val []byte) error {
	if p.closed {
		return errVerifClosed
	}
	p.st.m[string(key)] = val
	return nil
}
func (p *verifPersister) Get(key []byte) ([]byte, error) {
	if p.closed {
		return nil, errVerifClosed
	}
	v, ok := p.st.m[string(key)]
	if !ok {
		return nil, errVerifNotFound
	}
	return v, nil
}
func (p *verifPersister) Has(key []byte) error {
	_, err := p.Get(key)
	return err
}
func (p *verifPersister) Init() error  { return nil }
func (p *verifPersister) Close() error { p.closed = true; return nil }
func (p *verifPersister) Remove(key []byte) error {
	if p.closed {
		return errVerifClosed
	}
	delete(p.st.m, string(key))
	return nil
}
func (p *verifPersister) Destroy() error                                      { p.st.m = map[string][]byte{}; return nil }
func (p *verifPersister) DestroyClosed() error                                { return p.Destroy() }
func (p *verifPersister) RangeKeys(handler func(key []byte, val []byte) bool) {}
func (p *verifPersister) IsInterfaceNil() bool                                { return p == nil }

type verifFactory struct{ stores map[string]*verifStore }

func (f *verifFactory) Create(path string) (storage.Persister, error) {
	st, ok := f.stores[path]
	if !ok {
		st = &verifStore{m: map[string][]byte{}}
		f.stores[path] = st
	}
	return &verifPersister{st: st}, nil
}
func (f *verifFactory) CreateDisabled() storage.Persister { return nil }
func (f *verifFactory) IsInterfaceNil() bool              { return f == nil }

type verifCache struct{ m map[string]interface{} }

func (c *verifCache) Clear()                                                  { c.m = map[string]interface{}{} }
func (c *verifCache) Put(key []byte, value interface{}, sizeInBytes int) bool { c.m[string(key)] = value; return false }
func (c *verifCache) Get(key []byte) (interface{}, bool)                      { v, ok := c.m[string(key)]; return v, ok }
func (c *verifCache) Has(key []byte) bool                                     { _, ok := c.m[string(key)]; return ok }
func (c *verifCache) Peek(key []byte) (interface{}, bool)                     { return c.Get(key) }
func (c *verifCache) HasOrAdd(key []byte, value interface{}, sizeInBytes int) (bool, bool) {
	return false, false
}
func (c *verifCache) Remove(key []byte)                                                      { delete(c.m, string(key)) }
func (c *verifCache) Keys() [][]byte                                                         { return nil }
func (c *verifCache) Len() int                                                               { return len(c.m) }
func (c *verifCache) SizeInBytesContained() uint64                                           { return 0 }
func (c *verifCache) MaxSize() int                                                           { return 100 }
func (c *verifCache) RegisterHandler(handler func(key []byte, value interface{}), id string) {}
func (c *verifCache) UnRegisterHandler(id string)                                            {}
func (c *verifCache) Close() error                                                           { return nil }
func (c *verifCache) IsInterfaceNil() bool                                                   { return c == nil }

type verifPaths struct{}

func (verifPaths) PathForEpoch(shardId string, epoch uint32, identifier string) string {
	return "epoch" + string(rune('0'+epoch))
}
func (verifPaths) PathForStatic(shardId string, identifier string) string { return "static" }
func (verifPaths) DatabasePath() string                                   { return "db" }
func (verifPaths) IsInterfaceNil() bool                                   { return false }

type verifShardCoord struct{}

func (verifShardCoord) NumberOfShards() uint32                                { return 1 }
func (verifShardCoord) ComputeId(address []byte) uint32                       { return 0 }
func (verifShardCoord) SelfId() uint32                                        { return 0 }
func (verifShardCoord) SameShard(firstAddress, secondAddress []byte) bool     { return true }
func (verifShardCoord) CommunicationIdentifier(destShardID uint32) string    { return "_0" }
func (verifShardCoord) IsInterfaceNil() bool                                  { return false }

type verifCleaner struct{}

func (verifCleaner) ShouldClean() bool    { return true }
func (verifCleaner) IsInterfaceNil() bool { return false }

func verifNewPruningStorer(numActive, numKeep uint32) (*PruningStorer, *verifFactory) {
	f := &verifFactory{stores: map[string]*verifStore{}}
	db, _ := f.Create(verifPaths{}.PathForEpoch("0", 0, "id"))
	pd0 := &persisterData{persister: db, epoch: 0, path: "epoch0"}
	ps := &PruningStorer{
		pruningEnabled: true, identifier: "id", activePersisters: []*persisterData{pd0}, persisterFactory: f,
		shardCoordinator: verifShardCoord{}, persistersMapByEpoch: map[uint32]*persisterData{0: pd0}, cacher: &verifCache{m: map[string]interface{}{}},
		epochPrepareHdr: &block.MetaBlock{Epoch: epochForDefaultEpochPrepareHdr}, pathManager: verifPaths{}, numOfEpochsToKeep: numKeep,
		numOfActivePersisters: numActive, oldDataCleanerProvider: verifCleaner{},
	}
	return ps, f
}

// ---- the check ---------------------------------------------------------------------------------

// Keys are content addresses: a key always carries the same (symbolic) value. A reference model
// records, per epoch, which keys were written and not removed.
func Verif_C30_sequence() {
	numActive := uint32(1 + verifChoice("numActive", 2))
	numKeep := numActive + uint32(verifChoice("extraKeep", 2))
	ps, _ := verifNewPruningStorer(numActive, numKeep)
	nk := verifParam("keys")
	keys := [][]byte{[]byte("a"), []byte("b")}[:nk]
	vals := [][]byte{verifBytes("va", 1), verifBytes("vb", 1)}[:nk]
	cur := uint32(0)
	inEpoch := map[uint32][]bool{0: make([]bool, nk)} // ref: epoch -> key index -> present
	plainPutEpoch := make([]int64, nk)                // epoch of the last plain Put not followed by Remove, else -1
	removed := make([]bool, nk)                       // removed and not written since
	for i := range plainPutEpoch {
		plainPutEpoch[i] = -1
	}
	isActive := func(e uint32) bool {
		for _, pd := range ps.activePersisters {
			if pd.epoch == e {
				return true
			}
		}
		return false
	}
	// plain Get consults the configured number of most recent active persisters
	isActiveForGet := func(e uint32) bool {
		for i, pd := range ps.activePersisters {
			if uint32(i) < numActive && pd.epoch == e {
				return true
			}
		}
		return false
	}
	steps := verifParam("steps")
	for s := 0; s < steps; s++ {
		op := verifChoice("op", 5+verifParam("stuckShard"))
		k := verifChoice("key", nk)
		switch op {
		case 0: // Put into the put-epoch (current epoch)
			verifAssert(ps.Put(keys[k], vals[k]) == nil, "put ok")
			inEpoch[cur][k] = true
			plainPutEpoch[k] = int64(cur)
			removed[k] = false
		case 1: // PutInEpoch into an existing epoch
			e := uint32(verifChoice("epoch", int(cur)+1))
			if _, retained := ps.persistersMapByEpoch[e]; retained {
				verifAssert(ps.PutInEpoch(keys[k], vals[k], e) == nil, "put in retained epoch ok")
				inEpoch[e][k] = true
				removed[k] = false
			}
		case 2:
			_ = ps.Remove(keys[k])
			removed[k] = true
			plainPutEpoch[k] = -1
			for e := range inEpoch {
				if isActive(e) {
					inEpoch[e][k] = false
				}
			}
		case 3:
			ps.ClearCache()
		case 5: // epoch change announced by a meta block that reports a shard stuck in an older epoch:
			// the older epochs stay active beyond the configured number of active persisters
			cur++
			oldest := uint32(verifChoice("stuckEpoch", int(cur)))
			mb := &block.MetaBlock{Epoch: cur, EpochStart: block.EpochStart{LastFinalizedHeaders: []block.EpochStartShardData{{Epoch: oldest}}}}
			verifAssert(ps.changeEpoch(mb) == nil, "change epoch (stuck shard) ok")
			ps.SetEpochForPutOperation(cur)
			inEpoch[cur] = make([]bool, nk)
		case 4: // epoch change
			cur++
			verifAssert(ps.changeEpoch(&block.Header{Epoch: cur}) == nil, "change epoch ok")
			ps.SetEpochForPutOperation(cur)
			inEpoch[cur] = make([]bool, nk)
		}
		// observations after every step, for every key
		for j := 0; j < nk; j++ {
			if plainPutEpoch[j] >= 0 && isActiveForGet(uint32(plainPutEpoch[j])) {
				g, err := ps.Get(keys[j])
				verifAssert(err == nil && len(g) == 1 && g[0] == vals[j][0], "value put in an active epoch is readable through Get")
			}
			if plainPutEpoch[j] >= 0 && isActive(uint32(plainPutEpoch[j])) {
				verifAssert(ps.Has(keys[j]) == nil, "value put in an active epoch is reported by Has")
				sf, err2 := ps.SearchFirst(keys[j])
				verifAssert(err2 == nil && len(sf) == 1 && sf[0] == vals[j][0], "value put in an active epoch is found by SearchFirst")
			}
			for e := uint32(0); e <= cur; e++ {
				_, retained := ps.persistersMapByEpoch[e]
				if retained && inEpoch[e][j] {
					g, err := ps.GetFromEpoch(keys[j], e)
					verifAssert(err == nil && len(g) == 1 && g[0] == vals[j][0], "value put in a retained epoch is readable through GetFromEpoch")
				}
			}
			// an older epoch that still holds the key (it was not active when the key was removed) may have been
			// re-activated for a stuck shard: then the key is legitimately found again
			heldByActive := false
			for e := uint32(0); e <= cur; e++ {
				if isActive(e) && inEpoch[e][j] {
					heldByActive = true
				}
			}
			if removed[j] && !heldByActive {
				_, err := ps.Get(keys[j])
				verifAssert(err != nil, "removed key is not returned by Get")
				verifAssert(ps.Has(keys[j]) != nil, "removed key is not reported by Has")
				_, err = ps.SearchFirst(keys[j])
				verifAssert(err != nil, "removed key is not found by SearchFirst")
				for _, pd := range ps.activePersisters {
					_, err = ps.GetFromEpoch(keys[j], pd.epoch)
					verifAssert(err != nil, "removed key is not returned from any active epoch")
				}
			}
		}
	}
	verifReach("end")
}
