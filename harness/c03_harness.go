package trie

import "github.com/ElrondNetwork/elrond-go/data"

// Commit, recreate from the root on the same storage, compare contents and root; apply the same
// further update/delete to both tries; commit again; the first root must still be recreatable with its
// old contents.
func Verif_C03_recreate() {
	kl := verifParam("keyLen")
	tr, _ := verifNewTrieLevel(uint(verifParam("level")))
	k1 := verifKey("k1", kl)
	k2 := verifKey("k2", kl)
	v1 := verifBytes("v1", 1)
	v2 := verifBytes("v2", 1)
	_ = tr.Update(k1, v1)
	_ = tr.Update(k2, v2)
	verifAssert(tr.Commit() == nil, "commit")
	root1, _ := tr.RootHash()
	rec, err := tr.Recreate(root1)
	verifAssert(err == nil && rec != nil, "recreate from committed root")
	same := func(a, b data.Trie, k []byte, what string) {
		ga, ea := a.Get(k)
		gb, eb := b.Get(k)
		verifAssert(ea == nil && eb == nil, "get ok")
		verifAssert(eqBytes(ga, gb), what)
	}
	same(tr, rec, k1, "recreated trie has the same value for k1")
	same(tr, rec, k2, "recreated trie has the same value for k2")
	rr, _ := rec.RootHash()
	verifAssert(eqBytes(rr, root1), "recreated trie has the same root")

	// same further operation on both
	k3 := verifKey("k3", kl)
	if verifBool("deleteInsteadOfUpdate") {
		_ = tr.Delete(k3)
		_ = rec.Delete(k3)
	} else {
		v3 := verifBytes("v3", 1)
		_ = tr.Update(k3, v3)
		_ = rec.Update(k3, v3)
	}
	ra, _ := tr.RootHash()
	rb, _ := rec.RootHash()
	verifAssert(eqBytes(ra, rb), "original and recreated trie evolve identically")
	same(tr, rec, k1, "k1 after further update")
	same(tr, rec, k2, "k2 after further update")
	same(tr, rec, k3, "k3 after further update")
	verifAssert(rec.Commit() == nil, "second commit")

	// the first root is still recreatable, with the first contents
	old, err := tr.Recreate(root1)
	verifAssert(err == nil && old != nil, "first root still recreatable")
	g1, _ := old.Get(k1)
	g2, _ := old.Get(k2)
	if eqBytes(k1, k2) {
		verifAssert(eqBytes(g1, v2), "old root: overwritten value")
	} else {
		verifAssert(eqBytes(g1, v1), "old root: k1 value")
	}
	verifAssert(eqBytes(g2, v2), "old root: k2 value")
	verifReach("end")
}
