package trie

import "github.com/ElrondNetwork/elrond-go/data"

// Commit, recreate from the root on the same storage, compare contents and root; apply the same
// further update/delete to both tries; commit again; the first root must still be recreatable with its
// old contents.
func Verif_C03_recreate() {
	kl := verifParam("keyLen")
	tr, _ := verifNewTrieLevel(uint(verifParam("level")))
	k1 := verifKey("k1", kl)
	k2 := verifKey("k2", kl)
	v1 := verifBytes("v1", 1)
	v2 := verifBytes("v2", 1)
	_ = tr.Update(k1, v1)
	_ = tr.Update(k2, v2)
	verifAssert(tr.Commit() == nil, "commit")
	root1, _ := tr.RootHash()
	rec, err := tr.Recreate(root1)
	verifAssert(err == nil && rec != nil, "recreate from committed root")
	same := func(a, b data.Trie, k []byte, what string) {
		ga, ea := a.Get(k)
		gb, eb := b.Get(k)
		verifAssert(ea == nil && eb == nil, "get ok")
		verifAssert(eqBytes(ga, gb), what)
	}
	same(tr, rec, k1, "recreated trie has the same value for k1")
	same(tr, rec, k2, "recreated trie has the same value for k2")
	rr, _ := rec.RootHash()
	verifAssert(eqBytes(rr, root1), "recreated trie has the same root")

	// same further operation on both
	k3 := verifKey("k3", kl)
	if verifBool("deleteInsteadOfUpdate") {
		_ = tr.Delete(k3)
		_ = rec.Delete(k3)
	} else {
		v3 := verifBytes("v3", 1)
		_ = tr.Update(k3, v3)
		_ = rec.Update(k3, v3)
	}
	ra, _ := tr.RootHash()
	rb, _ := rec.RootHash()
	verifAssert(eqBytes(ra, rb), "original and recreated trie evolve identically")
	same(tr, rec, k1, "k1 after further update")
	same(tr, rec, k2, "k2 after further update")
	same(tr, rec, k3, "k3 after further update")
	verifAssert(rec.Commit() == nil, "second commit")

	// the first root is still recreatable, with the first contents
	old, err := tr.Recreate(root1)
	verifAssert(err == nil && old != nil, "first root still recreatable")
	g1, _ := old.Get(k1)
	g2, _ := old.Get(k2)
	if eqBytes(k1, k2) {
		verifAssert(eqBytes(g1, v2), "old root: overwritten value")
	} else {
		verifAssert(eqBytes(g1, v1), "old root: k1 value")
	}
	verifAssert(eqBytes(g2, v2), "old root: k2 value")
	verifReach("end")
}

// Three keys, commit, delete one of them (or overwrite it), commit again, recreate from the new root:
// the recreated trie holds exactly the remaining pairs and has the new root; the first root is still there.
func Verif_C03_commitDeleteCommit() {
	kl := verifParam("keyLen")
	tr, _ := verifNewTrieLevel(uint(verifParam("level")))
	keys := [][]byte{verifKey("k1", kl), verifKey("k2", kl), verifKey("k3", kl)}
	vals := [][]byte{verifBytes("v1", 1), verifBytes("v2", 1), verifBytes("v3", 1)}
	verifAssume(!eqBytes(keys[0], keys[1]) && !eqBytes(keys[0], keys[2]) && !eqBytes(keys[1], keys[2]))
	for i := range keys {
		_ = tr.Update(keys[i], vals[i])
	}
	verifAssert(tr.Commit() == nil, "first commit")
	root1, _ := tr.RootHash()
	d := verifChoice("deleted", 3)
	if verifBool("overwriteInstead") {
		_ = tr.Update(keys[d], []byte("new"))
	} else {
		_ = tr.Delete(keys[d])
	}
	verifAssert(tr.Commit() == nil, "second commit")
	root2, _ := tr.RootHash()
	rec, err := tr.Recreate(root2)
	verifAssert(err == nil && rec != nil, "the second root is recreatable")
	if err == nil && rec != nil {
		for i := range keys {
			g1, e1 := tr.Get(keys[i])
			g2, e2 := rec.Get(keys[i])
			verifAssert(e1 == nil && e2 == nil, "reads succeed on the committed and on the recreated trie")
			verifAssert(eqBytes(g1, g2), "recreated trie has the contents of the second commit")
		}
		rr, _ := rec.RootHash()
		verifAssert(eqBytes(rr, root2), "recreated trie has the second root")
	}
	old, err := tr.Recreate(root1)
	verifAssert(err == nil && old != nil, "the first root is still recreatable")
	if err == nil && old != nil {
		for i := range keys {
			g, e := old.Get(keys[i])
			verifAssert(e == nil && eqBytes(g, vals[i]), "the first root still has its contents")
		}
	}
	verifReach("end")
}
