package state

// Storage values read back byte for byte, whatever the capacity of the caller's buffers and whatever
// the caller does with them afterwards.
func Verif_C08_buffers() {
	tdt := NewTrackableDataTrie([]byte("id"), nil)
	klen, vlen := 1+verifChoice("klen", 2), verifChoice("vlen", 6) // value 0..5 bytes: may end with key+identifier // value may be empty (= delete)
	kspare, vspare := verifChoice("kspare", 4), verifChoice("vspare", 6)
	// caller buffers: the key / value are the first bytes of larger arrays (spare capacity behind them)
	kbuf := make([]byte, klen+kspare)
	copy(kbuf, verifBytes("keyBuffer", klen+kspare))
	vbuf := make([]byte, vlen+vspare)
	copy(vbuf, verifBytes("valueBuffer", vlen+vspare))
	key, value := kbuf[:klen], vbuf[:vlen]
	origKey := append([]byte{}, key...)
	origValue := append([]byte{}, value...)
	origKbuf := append([]byte{}, kbuf...)
	origVbuf := append([]byte{}, vbuf...)

	verifAssert(tdt.SaveKeyValue(key, value) == nil, "save ok")
	// the call must not write into the caller's arrays
	for i := range kbuf {
		verifAssert(kbuf[i] == origKbuf[i], "the caller's key buffer is not modified")
	}
	for i := range vbuf {
		verifAssert(vbuf[i] == origVbuf[i], "the caller's value buffer is not modified")
	}
	// the caller reuses its buffers
	for i := range kbuf {
		kbuf[i] = verifU8("newKeyByte")
	}
	for i := range vbuf {
		vbuf[i] = verifU8("newValueByte")
	}
	got, err := tdt.RetrieveValue(origKey)
	if vlen > 0 {
		verifAssert(err == nil, "retrieve ok")
	}
	verifAssert(len(got) == len(origValue), "value length read back (a deleted key reads empty)")
	if len(got) == len(origValue) {
		for i := range got {
			verifAssert(got[i] == origValue[i], "value bytes read back exactly after the caller reused its buffers")
		}
	}
	verifReach("end")
}

// Two values saved from the same backing array (the usual 'reuse one buffer' caller).
func Verif_C08_sharedBacking() {
	tdt := NewTrackableDataTrie([]byte("id"), nil)
	arena := make([]byte, 12)
	copy(arena, verifBytes("arena", 12))
	v1 := arena[0:2]
	v2 := arena[2:4]
	o1, o2 := append([]byte{}, v1...), append([]byte{}, v2...)
	_ = tdt.SaveKeyValue([]byte("ka"), v1)
	_ = tdt.SaveKeyValue([]byte("kb"), v2)
	g1, _ := tdt.RetrieveValue([]byte("ka"))
	g2, _ := tdt.RetrieveValue([]byte("kb"))
	verifAssert(len(g1) == 2 && g1[0] == o1[0] && g1[1] == o1[1], "first value unaffected by the second save")
	verifAssert(len(g2) == 2 && g2[0] == o2[0] && g2[1] == o2[1], "second value read back")
	// delete reads empty
	_ = tdt.SaveKeyValue([]byte("ka"), nil)
	g1, _ = tdt.RetrieveValue([]byte("ka"))
	verifAssert(len(g1) == 0, "deleted key reads empty")
	verifReach("end")
}
