package interceptors

import (
	"time"

	"github.com/ElrondNetwork/elrond-go/core"
	"github.com/ElrondNetwork/elrond-go/core/throttler"
	"github.com/ElrondNetwork/elrond-go/data/batch"
	"github.com/ElrondNetwork/elrond-go/debug/resolver"
	"github.com/ElrondNetwork/elrond-go/p2p"
	"github.com/ElrondNetwork/elrond-go/process"
)

// decorator around the real throttler: a scheduling point before every call
type verifYieldingThrottler struct {
	real     process.InterceptorThrottler
	inWindow int
	overlap  bool
}

func (t *verifYieldingThrottler) CanProcess() bool {
	verifYield()
	r := t.real.CanProcess()
	if r {
		if t.inWindow > 0 {
			t.overlap = true
		}
		t.inWindow++
	}
	return r
}
func (t *verifYieldingThrottler) StartProcessing() {
	verifYield()
	t.real.StartProcessing()
	t.inWindow--
}
func (t *verifYieldingThrottler) EndProcessing()       { verifYield(); t.real.EndProcessing() }
func (t *verifYieldingThrottler) IsInterfaceNil() bool { return t == nil }

type verifAntiflood struct{}

func (verifAntiflood) CanProcessMessage(message p2p.MessageP2P, fromConnectedPeer core.PeerID) error {
	return nil
}
func (verifAntiflood) CanProcessMessagesOnTopic(pid core.PeerID, topic string, numMessages uint32, totalSize uint64, sequence []byte) error {
	return nil
}
func (verifAntiflood) ApplyConsensusSize(size int)                                           {}
func (verifAntiflood) SetDebugger(debugger process.AntifloodDebugger) error                  { return nil }
func (verifAntiflood) BlacklistPeer(peer core.PeerID, reason string, duration time.Duration) {}
func (verifAntiflood) IsOriginatorEligibleForTopic(pid core.PeerID, topic string) error      { return nil }
func (verifAntiflood) IsInterfaceNil() bool                                                  { return false }
func (verifAntiflood) Close() error                                                          { return nil }

type verifNoPreferred struct{}

func (verifNoPreferred) Get() map[uint32][]core.PeerID { return nil }
func (verifNoPreferred) Contains(core.PeerID) bool     { return false }
func (verifNoPreferred) IsInterfaceNil() bool          { return false }

type verifMsg struct{}

func (verifMsg) From() []byte         { return []byte("from") }
func (verifMsg) Data() []byte         { return []byte("data") }
func (verifMsg) Payload() []byte      { return nil }
func (verifMsg) SeqNo() []byte        { return []byte("1") }
func (verifMsg) Topic() string        { return "t" }
func (verifMsg) Signature() []byte    { return []byte("sig") }
func (verifMsg) Key() []byte          { return nil }
func (verifMsg) Peer() core.PeerID    { return "peer" }
func (verifMsg) Timestamp() int64     { return 0 }
func (verifMsg) IsInterfaceNil() bool { return false }

// The real baseDataInterceptor.preProcessMesage (CanProcess ... StartProcessing) run by concurrent
// message handlers on one real NumGoRoutinesThrottler.
func Verif_C43_interceptor() {
	max := verifI32("max")
	verifAssume(max >= 1 && max <= 1000)
	real, _ := throttler.NewNumGoRoutinesThrottler(max)
	th := &verifYieldingThrottler{real: real}
	bdi := &baseDataInterceptor{throttler: th, antifloodHandler: verifAntiflood{}, topic: "t", currentPeerId: "self", preferredPeersHolder: verifNoPreferred{}}
	running := int32(0)
	handler := func() {
		err := bdi.preProcessMesage(verifMsg{}, "other")
		if err == nil {
			running++
			verifKnown("C43-toctou", th.overlap)
			verifAssert(running <= max, "more than max message handlers running")
			verifYield()
			running--
			th.EndProcessing()
		}
	}
	n := verifParam("workers")
	for i := 0; i < n; i++ {
		verifGo(handler)
	}
	verifJoin()
	verifReach("end")
}

// ---- balance of StartProcessing / EndProcessing on every path of the interceptors ---------------

type verifCountingThrottler struct {
	real         process.InterceptorThrottler
	starts, ends int
}

func (t *verifCountingThrottler) CanProcess() bool     { return t.real.CanProcess() }
func (t *verifCountingThrottler) StartProcessing()     { t.starts++; t.real.StartProcessing() }
func (t *verifCountingThrottler) EndProcessing()       { t.ends++; t.real.EndProcessing() }
func (t *verifCountingThrottler) IsInterfaceNil() bool { return t == nil }

// antiflood handler whose answers are symbolic choices
type verifSymAntiflood struct{ verifAntiflood }

func (verifSymAntiflood) CanProcessMessage(message p2p.MessageP2P, fromConnectedPeer core.PeerID) error {
	if verifBool("floodMessage") {
		return process.ErrSystemBusy
	}
	return nil
}
func (verifSymAntiflood) CanProcessMessagesOnTopic(pid core.PeerID, topic string, numMessages uint32, totalSize uint64, sequence []byte) error {
	if verifBool("floodTopic") {
		return process.ErrSystemBusy
	}
	return nil
}
func (verifSymAntiflood) IsOriginatorEligibleForTopic(pid core.PeerID, topic string) error {
	if verifBool("originatorNotEligible") {
		return process.ErrOnlyValidatorsCanUseThisTopic
	}
	return nil
}

type verifInterceptedData struct{ validity int }

func (d *verifInterceptedData) CheckValidity() error {
	switch d.validity {
	case 1:
		return process.ErrInvalidTransactionVersion
	case 2:
		return process.ErrInvalidChainID
	case 3:
		return process.ErrNilTransaction
	}
	return nil
}
func (d *verifInterceptedData) IsForCurrentShard() bool { return verifBool("forCurrentShard") }
func (d *verifInterceptedData) IsInterfaceNil() bool    { return d == nil }
func (d *verifInterceptedData) Hash() []byte            { return []byte("hash") }
func (d *verifInterceptedData) Type() string            { return "t" }
func (d *verifInterceptedData) Identifiers() [][]byte   { return nil }
func (d *verifInterceptedData) String() string          { return "d" }

type verifDataFactory struct{}

func (verifDataFactory) Create(buff []byte) (process.InterceptedData, error) {
	if verifBool("createFails") {
		return nil, process.ErrNilDataToProcess
	}
	return &verifInterceptedData{validity: verifChoice("validity", 4)}, nil
}
func (verifDataFactory) IsInterfaceNil() bool { return false }

type verifWhiteList struct{}

func (verifWhiteList) Remove(keys [][]byte) {}
func (verifWhiteList) Add(keys [][]byte)    {}
func (verifWhiteList) IsWhiteListed(interceptedData process.InterceptedData) bool {
	return verifBool("whiteListed")
}
func (verifWhiteList) IsWhiteListedAtLeastOne(identifiers [][]byte) bool { return false }
func (verifWhiteList) IsInterfaceNil() bool                              { return false }

type verifProcessor struct{}

func (verifProcessor) Validate(data process.InterceptedData, fromConnectedPeer core.PeerID) error {
	if verifBool("validateFails") {
		return process.ErrNilTransaction
	}
	return nil
}
func (verifProcessor) Save(data process.InterceptedData, fromConnectedPeer core.PeerID, topic string) error {
	return nil
}
func (verifProcessor) RegisterHandler(handler func(topic string, hash []byte, data interface{})) {}
func (verifProcessor) IsInterfaceNil() bool                                                      { return false }

type verifBatchMarshalizer struct{}

func (verifBatchMarshalizer) Marshal(obj interface{}) ([]byte, error) { return []byte("b"), nil }
func (verifBatchMarshalizer) Unmarshal(obj interface{}, buff []byte) error {
	if verifBool("unmarshalFails") {
		return process.ErrNilDataToProcess
	}
	b := obj.(*batch.Batch)
	n := verifChoice("batchItems", 3)
	for i := 0; i < n; i++ {
		b.Data = append(b.Data, []byte{byte(i)})
	}
	return nil
}
func (verifBatchMarshalizer) IsInterfaceNil() bool { return false }

type verifChunks struct{}

func (verifChunks) CheckBatch(b *batch.Batch, whiteListHandler process.WhiteListHandler) (process.CheckedChunkResult, error) {
	if verifBool("chunkCheckFails") {
		return process.CheckedChunkResult{}, process.ErrNilDataToProcess
	}
	return process.CheckedChunkResult{IsChunk: verifBool("isChunk"), HaveAllChunks: verifBool("haveAllChunks"), CompleteBuffer: []byte("c")}, nil
}
func (verifChunks) Close() error         { return nil }
func (verifChunks) IsInterfaceNil() bool { return false }

// Every path through ProcessReceivedMessage of both interceptors (all environment answers symbolic):
// the task counter of the throttler is back where it was once the message is handled, i.e. every
// StartProcessing is matched by exactly one EndProcessing.
func Verif_C43_balancedStartEnd() {
	real, _ := throttler.NewNumGoRoutinesThrottler(5)
	th := &verifCountingThrottler{real: real}
	base := &baseDataInterceptor{throttler: th, antifloodHandler: verifSymAntiflood{}, topic: "t", currentPeerId: "self",
		preferredPeersHolder: verifNoPreferred{}, processor: verifProcessor{}, debugHandler: resolver.NewDisabledInterceptorResolver()}
	var err error
	if verifBool("multiData") {
		mdi := &MultiDataInterceptor{baseDataInterceptor: base, marshalizer: verifBatchMarshalizer{}, factory: verifDataFactory{}, whiteListRequest: verifWhiteList{}, chunksProcessor: verifChunks{}}
		err = mdi.ProcessReceivedMessage(verifMsg{}, "other")
	} else {
		sdi := &SingleDataInterceptor{baseDataInterceptor: base, factory: verifDataFactory{}, whiteListRequest: verifWhiteList{}}
		err = sdi.ProcessReceivedMessage(verifMsg{}, "other")
	}
	_ = err
	// let the processing goroutine started by an accepted message run to completion
	for i := 0; i < 200 && th.starts != th.ends; i++ {
		time.Sleep(5 * time.Millisecond)
	}
	verifAssert(th.starts == th.ends, "every StartProcessing is matched by exactly one EndProcessing")
	verifAssert(real.CanProcess(), "the throttler is not left occupied")
	verifReach("end")
}
