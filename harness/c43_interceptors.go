package interceptors

import (
	"time"

	"github.com/ElrondNetwork/elrond-go/core"
	"github.com/ElrondNetwork/elrond-go/core/throttler"
	"github.com/ElrondNetwork/elrond-go/p2p"
	"github.com/ElrondNetwork/elrond-go/process"
)

// decorator around the real throttler: a scheduling point before every call
type verifYieldingThrottler struct {
	real     process.InterceptorThrottler
	inWindow int
	overlap  bool
}

func (t *verifYieldingThrottler) CanProcess() bool {
	verifYield()
	r := t.real.CanProcess()
	if r {
		if t.inWindow > 0 {
			t.overlap = true
		}
		t.inWindow++
	}
	return r
}
func (t *verifYieldingThrottler) StartProcessing() {
	verifYield()
	t.real.StartProcessing()
	t.inWindow--
}
func (t *verifYieldingThrottler) EndProcessing()       { verifYield(); t.real.EndProcessing() }
func (t *verifYieldingThrottler) IsInterfaceNil() bool { return t == nil }

type verifAntiflood struct{}

func (verifAntiflood) CanProcessMessage(message p2p.MessageP2P, fromConnectedPeer core.PeerID) error {
	return nil
}
func (verifAntiflood) CanProcessMessagesOnTopic(pid core.PeerID, topic string, numMessages uint32, totalSize uint64, sequence []byte) error {
	return nil
}
func (verifAntiflood) ApplyConsensusSize(size int)                                        {}
func (verifAntiflood) SetDebugger(debugger process.AntifloodDebugger) error               { return nil }
func (verifAntiflood) BlacklistPeer(peer core.PeerID, reason string, duration time.Duration) {}
func (verifAntiflood) IsOriginatorEligibleForTopic(pid core.PeerID, topic string) error   { return nil }
func (verifAntiflood) IsInterfaceNil() bool                                               { return false }
func (verifAntiflood) Close() error                                                       { return nil }

type verifNoPreferred struct{}

func (verifNoPreferred) Get() map[uint32][]core.PeerID { return nil }
func (verifNoPreferred) Contains(core.PeerID) bool      { return false }
func (verifNoPreferred) IsInterfaceNil() bool           { return false }

type verifMsg struct{}

func (verifMsg) From() []byte         { return []byte("from") }
func (verifMsg) Data() []byte         { return []byte("data") }
func (verifMsg) Payload() []byte      { return nil }
func (verifMsg) SeqNo() []byte        { return []byte("1") }
func (verifMsg) Topic() string        { return "t" }
func (verifMsg) Signature() []byte    { return []byte("sig") }
func (verifMsg) Key() []byte          { return nil }
func (verifMsg) Peer() core.PeerID    { return "peer" }
func (verifMsg) Timestamp() int64     { return 0 }
func (verifMsg) IsInterfaceNil() bool { return false }

// The real baseDataInterceptor.preProcessMesage (CanProcess ... StartProcessing) run by concurrent
// message handlers on one real NumGoRoutinesThrottler.
func Verif_C43_interceptor() {
	max := verifI32("max")
	verifAssume(max >= 1 && max <= 1000)
	real, _ := throttler.NewNumGoRoutinesThrottler(max)
	th := &verifYieldingThrottler{real: real}
	bdi := &baseDataInterceptor{throttler: th, antifloodHandler: verifAntiflood{}, topic: "t", currentPeerId: "self", preferredPeersHolder: verifNoPreferred{}}
	running := int32(0)
	handler := func() {
		err := bdi.preProcessMesage(verifMsg{}, "other")
		if err == nil {
			running++
			verifKnown("C43-toctou", th.overlap)
			verifAssert(running <= max, "more than max message handlers running")
			verifYield()
			running--
			th.EndProcessing()
		}
	}
	n := verifParam("workers")
	for i := 0; i < n; i++ {
		verifGo(handler)
	}
	verifJoin()
	verifReach("end")
}
