package trie

import (
	"time"

	"github.com/ElrondNetwork/elrond-go/data"
	"github.com/ElrondNetwork/elrond-go/hashing/blake2b"
	"github.com/ElrondNetwork/elrond-go/marshal"
	"github.com/ElrondNetwork/elrond-go/storage"
)

// cache of intercepted nodes: what the interceptor stored, keyed by the hash the interceptor computed
type verifC05Cacher struct {
	storage.Cacher
	keys [][]byte
	vals []interface{}
	dead []bool
}

func (c *verifC05Cacher) Put(key []byte, value interface{}, sizeInBytes int) bool {
	c.keys, c.vals, c.dead = append(c.keys, key), append(c.vals, value), append(c.dead, false)
	return false
}
func (c *verifC05Cacher) Get(key []byte) (interface{}, bool) {
	for i := len(c.keys) - 1; i >= 0; i-- {
		if !c.dead[i] && eqBytes(c.keys[i], key) {
			return c.vals[i], true
		}
	}
	return nil, false
}
func (c *verifC05Cacher) Remove(key []byte) {
	for i := range c.keys {
		if eqBytes(c.keys[i], key) {
			c.dead[i] = true
		}
	}
}
func (c *verifC05Cacher) IsInterfaceNil() bool { return c == nil }

type verifC05Requests struct{ last [][]byte }

func (r *verifC05Requests) RequestTrieNodes(destShardID uint32, hashes [][]byte, topic string) {
	r.last = hashes
}
func (r *verifC05Requests) RequestInterval() time.Duration { return time.Second }
func (r *verifC05Requests) IsInterfaceNil() bool           { return r == nil }

type verifC05Stats struct{ data.SyncStatisticsHandler }

func (verifC05Stats) AddNumReceived(value int)                 {}
func (verifC05Stats) AddNumLarge(value int)                    {}
func (verifC05Stats) SetNumMissing(rootHash []byte, value int) {}
func (verifC05Stats) IsInterfaceNil() bool                     { return false }

// deliver: what the network does with a request - the peer looks the node up in the source database and
// sends the bytes; the interceptor decodes them, computes the hash of the content and caches the node
// under THAT hash (TrieNodeInterceptorProcessor.Save)
func verifC05Deliver(src *verifDB, cache *verifC05Cacher, hash []byte) {
	buff, err := src.Get(hash)
	if err != nil {
		return
	}
	n, err := NewInterceptedTrieNode(buff, &marshal.GogoProtoMarshalizer{}, blake2b.NewBlake2b())
	if err != nil {
		return
	}
	cache.Put(n.Hash(), n, len(buff))
}

type verifC05Env struct {
	srcDB, otherDB, target *verifDB
	root, otherRoot        []byte
	keys, vals             [][]byte
	cache                  *verifC05Cacher
	req                    *verifC05Requests
	hardCap                int
}

func verifC05Setup() *verifC05Env {
	src, srcDB := verifNewTrieLevel(5)
	e := &verifC05Env{srcDB: srcDB, keys: [][]byte{{0x00, 0x10}, {0x00, 0x20}, {0x01, 0x20}},
		vals: [][]byte{verifBytes("v0", 1), verifBytes("v1", 1), verifBytes("v2", 1)}, target: &verifDB{}, cache: &verifC05Cacher{}, req: &verifC05Requests{}}
	if verifParam("shape") == 1 {
		// a root branch over two branches with two leaves each: two nodes with undelivered children can be
		// processed in one pass (the hard cap for missing nodes then comes into play)
		e.keys = [][]byte{{0x11}, {0x21}, {0x12}, {0x22}}
		e.vals = append(e.vals, verifBytes("v3", 1))
	}
	e.hardCap = 1 + verifChoice("hardCap", 2)*100
	for i := range e.keys {
		_ = src.Update(e.keys[i], e.vals[i])
	}
	verifAssert(src.Commit() == nil, "source trie committed")
	e.root, _ = src.RootHash()
	// another trie whose nodes are not part of the source
	other, otherDB := verifNewTrieLevel(5)
	_ = other.Update([]byte{0x00, 0x10}, []byte{'x', 'y'})
	_ = other.Commit()
	e.otherDB = otherDB
	e.otherRoot, _ = other.RootHash()
	return e
}

func (e *verifC05Env) args() ArgTrieSyncer {
	return ArgTrieSyncer{Marshalizer: &marshal.GogoProtoMarshalizer{}, Hasher: blake2b.NewBlake2b(), DB: e.target, RequestHandler: e.req,
		InterceptedNodes: e.cache, Topic: "t", TrieSyncStatistics: verifC05Stats{}, TimeoutBetweenTrieNodesCommits: time.Hour, MaxHardCapForMissingNodes: e.hardCap}
}

// run drives the syncer round by round (one round = one pass of the loop of StartSyncing): each of the first
// `rounds` rounds the network answers the current request completely, not at all, only its first hash, or
// all but the first; it may inject a node of another trie and bytes that are no node, and repeat an earlier
// answer late. From then on everything asked for is delivered.
func (e *verifC05Env) run(step func() (bool, error)) {
	synced := false
	var err error
	rounds := verifParam("rounds")
	var previous [][]byte
	for r := 0; r < rounds+6 && !synced; r++ {
		e.req.last = nil
		synced, err = step()
		verifAssert(err == nil, "a sync round does not fail")
		if synced || err != nil {
			break
		}
		asked := e.req.last
		mode := 0
		if r < rounds {
			mode = verifChoice("answer"+string(rune('0'+r)), 4)
		}
		for i, h := range asked {
			if mode == 0 || (mode == 2 && i == 0) || (mode == 3 && i > 0) {
				verifC05Deliver(e.srcDB, e.cache, h)
			}
		}
		if r == 0 && verifBool("junk") {
			verifC05Deliver(e.otherDB, e.cache, e.otherRoot) // a valid node nobody asked for
			_, errJunk := NewInterceptedTrieNode([]byte{0xff, 0x01, 0x02}, &marshal.GogoProtoMarshalizer{}, blake2b.NewBlake2b())
			verifAssert(errJunk != nil, "bytes that are not a node are rejected by the interceptor")
		}
		if r == 1 && verifBool("repeat") {
			for _, h := range previous {
				verifC05Deliver(e.srcDB, e.cache, h) // a late duplicate of an earlier answer
			}
		}
		previous = asked
	}
	if !synced {
		// completion is only expected when the hard cap admits all children of one node at once (a cap of 1 makes
		// the first-generation syncer ask for the same two children forever: a liveness matter, not part of C05)
		verifAssert(e.hardCap < 16, "the sync completes once everything asked for is delivered")
		verifReach("not completed within the rounds")
	}
	// every entry of the target database is stored under the hash of its own content
	h := blake2b.NewBlake2b()
	for i := range e.target.keys {
		verifAssert(eqBytes(h.Compute(string(e.target.vals[i])), e.target.keys[i]), "a node is stored under the hash of its own content")
	}
	// the target database alone recreates the trie: same root, same contents
	tr, _ := NewTrie(&verifTSM{db: e.target}, &marshal.GogoProtoMarshalizer{}, blake2b.NewBlake2b(), 5)
	if !synced {
		return
	}
	rec, err := tr.Recreate(e.root)
	verifAssert(err == nil && rec != nil, "the synced trie can be recreated from the local storage alone")
	if err == nil && rec != nil {
		for i := range e.keys {
			v, errGet := rec.Get(e.keys[i])
			verifAssert(errGet == nil && eqBytes(v, e.vals[i]), "the recreated trie holds the source trie's contents")
		}
		rr, _ := rec.RootHash()
		verifAssert(eqBytes(rr, e.root), "the recreated trie has the requested root hash")
	}
	verifReach("end")
}

// The double-list syncer: a source trie with three symbolic values under keys that give an extension, a
// branch and leaves; arbitrary delivery schedule (see run).
func Verif_C05_doubleListSync() {
	e := verifC05Setup()
	d, err := NewDoubleListTrieSyncer(e.args())
	verifAssert(err == nil, "syncer created")
	// what StartSyncing sets up before its loop
	d.lastSyncedTrieNode = time.Now()
	d.existingNodes = make(map[string]node)
	d.missingHashes = make(map[string]struct{})
	d.rootHash = e.root
	d.missingHashes[string(e.root)] = struct{}{}
	e.run(d.checkIsSyncedWhileProcessingMissingAndExisting)
}

// The first-generation syncer (sync.go), same source trie and schedules.
func Verif_C05_sync() {
	e := verifC05Setup()
	ts, err := NewTrieSyncer(e.args())
	verifAssert(err == nil, "syncer created")
	// what StartSyncing sets up before its loop
	ts.nodesForTrie = make(map[string]trieNodeInfo)
	ts.nodesForTrie[string(e.root)] = trieNodeInfo{received: false}
	ts.lastSyncedTrieNode = time.Now()
	ts.rootHash = e.root
	e.run(func() (bool, error) {
		shouldRetry, errCheck := ts.checkIfSynced()
		if errCheck != nil {
			return false, errCheck
		}
		numUnResolved := ts.requestNodes()
		return !shouldRetry && numUnResolved == 0, nil
	})
}
