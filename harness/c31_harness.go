package bloom

import (
	"github.com/ElrondNetwork/elrond-go/hashing"
	"github.com/ElrondNetwork/elrond-go/hashing/fnv"
	"github.com/ElrondNetwork/elrond-go/hashing/keccak"
)


func Verif_C31_noFalseNegative() {
	b, err := NewFilter(4, []hashing.Hasher{keccak.NewKeccak(), fnv.NewFnv()})
	verifAssert(err == nil, "filter created")
	pre := verifBytes("pre", 4)
	copy(b.filter, pre) // arbitrary pre-state
	k := verifBytes("k", 2)
	b.Add(k)
	verifAssert(b.MayContain(k), "added key is reported as possibly contained")
	verifReach("end")
}

func Verif_C31_lockset() {
	b, _ := NewFilter(4, []hashing.Hasher{keccak.NewKeccak(), fnv.NewFnv()})
	verifRaceWatch(b)
	k1 := verifBytes("k1", 1)
	k2 := verifBytes("k2", 1)
	verifRaceBegin("Add")
	b.Add(k1)
	verifRaceEnd()
	verifRaceBegin("MayContain")
	_ = b.MayContain(k2)
	verifRaceEnd()
	verifRaceCheck()
	verifReach("end")
}
