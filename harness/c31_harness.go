package bloom

import (
	"github.com/ElrondNetwork/elrond-go/hashing"
	"github.com/ElrondNetwork/elrond-go/hashing/fnv"
	"github.com/ElrondNetwork/elrond-go/hashing/keccak"
)

// No false negative: arbitrary pre-state of the filter, symbolic key, hashers modelled as injective
// functions with unknown values: after Add(k), MayContain(k); also after adding further keys.
func Verif_C31_noFalseNegative() {
	size := verifParam("size")
	b, err := NewFilter(uint(size), []hashing.Hasher{keccak.NewKeccak(), fnv.NewFnv()})
	verifAssert(err == nil, "filter created")
	pre := verifBytes("pre", size)
	copy(b.filter, pre) // arbitrary pre-state
	k := verifBytes("k", 2)
	b.Add(k)
	verifAssert(b.MayContain(k), "added key is reported as possibly contained")
	k2 := verifBytes("k2", 1)
	b.Add(k2)
	verifAssert(b.MayContain(k), "key still reported after adding another key")
	verifAssert(b.MayContain(k2), "second key reported")
	verifReach("end")
}

// Symbolic lockset: every operation is run once from the same filter; two accesses of different
// operations that can touch the same byte (index equality decided by the solver), one of them a
// write, with no common lock held, are a race.
func Verif_C31_lockset() {
	b, _ := NewFilter(4, []hashing.Hasher{keccak.NewKeccak(), fnv.NewFnv()})
	verifRaceWatch(b)
	k1 := verifBytes("k1", 1)
	k2 := verifBytes("k2", 1)
	k3 := verifBytes("k3", 1)
	verifRaceBegin("Add")
	b.Add(k1)
	verifRaceEnd()
	verifRaceBegin("MayContain")
	_ = b.MayContain(k2)
	verifRaceEnd()
	verifRaceBegin("Add#2")
	b.Add(k3)
	verifRaceEnd()
	verifRaceBegin("Clear")
	b.Clear()
	verifRaceEnd()
	verifRaceCheck()
	verifReach("end")
}
