package data

import "math/big"

// The hand-written caster behind every *big.Int field of the generated messages: for an arbitrary
// value of up to `bytes` magnitude bytes (either sign, zero, nil) Size, MarshalTo and Unmarshal agree
// and the value read back is the value written.
func Verif_C45_bigIntCaster() {
	c := &BigIntCaster{}
	n := verifParam("bytes")
	x := verifBig("x")
	lim := new(big.Int).Lsh(big.NewInt(1), uint(8*n))
	verifAssume(x.Cmp(lim) < 0 && x.Cmp(new(big.Int).Neg(lim)) > 0)
	size := c.Size(x)
	verifAssert(size >= 2 && size <= n+1, "size of a non-nil value is 1 + magnitude bytes (2 for zero)")
	buf := make([]byte, size+verifChoice("spare", 2))
	for i := size; i < len(buf); i++ { // the generated Marshal hands over a zeroed buffer of exactly Size bytes;
		buf[i] = 0xAA // what lies beyond must stay untouched
	}
	k, err := c.MarshalTo(x, buf)
	verifAssert(err == nil && k == size, "MarshalTo writes exactly Size bytes")
	y, err := c.Unmarshal(buf[:k])
	verifAssert(err == nil, "written bytes decode")
	verifAssert(y != nil && y.Cmp(x) == 0, "the value read back is the value written")
	if size < len(buf) {
		verifAssert(buf[size] == 0xAA, "nothing is written beyond Size bytes")
	}
	if x.Sign() != 0 {
		_, err = c.MarshalTo(x, make([]byte, size-1))
		verifAssert(err != nil, "a buffer that is too short is refused")
	}
	verifReach("end")
}

func Verif_C45_bigIntCasterNil() {
	c := &BigIntCaster{}
	buf := []byte{0xAA, 0xAA}
	k, err := c.MarshalTo(nil, buf)
	verifAssert(err == nil && k == 1 && c.Size(nil) == 1, "nil takes one byte")
	y, err := c.Unmarshal(buf[:k])
	verifAssert(err == nil && y == nil, "nil reads back as nil")
	verifAssert(c.Equal(nil, nil) && !c.Equal(nil, big.NewInt(0)), "nil equals only nil")
	verifReach("end")
}
