package networksharding

import (
	"math/big"

	"github.com/ElrondNetwork/elrond-go/core"
	"github.com/libp2p/go-libp2p-core/peer"
)

type verifC44Env struct {
	ids       []peer.ID
	ptype     []uint8
	subtype   []uint8
	shard     []uint32
	preferred []bool
	dist      []uint8
}

func (e *verifC44Env) idx(pid core.PeerID) int {
	for i, id := range e.ids {
		if core.PeerID(id) == pid {
			return i
		}
	}
	return -1
}

func (e *verifC44Env) GetPeerInfo(pid core.PeerID) core.P2PPeerInfo {
	i := e.idx(pid)
	if i < 0 {
		return core.P2PPeerInfo{PeerType: core.ObserverPeer, ShardID: 0} // self
	}
	return core.P2PPeerInfo{PeerType: core.P2PPeerType(e.ptype[i]), PeerSubType: core.P2PPeerSubType(e.subtype[i]), ShardID: e.shard[i]}
}
func (e *verifC44Env) IsInterfaceNil() bool { return e == nil }

type verifC44Preferred struct{ e *verifC44Env }

func (p verifC44Preferred) Get() map[uint32][]core.PeerID { return nil }
func (p verifC44Preferred) Contains(pid core.PeerID) bool {
	i := p.e.idx(pid)
	return i >= 0 && p.e.preferred[i]
}
func (p verifC44Preferred) IsInterfaceNil() bool                                          { return false }
func (p verifC44Preferred) Put(publicKey []byte, peerID core.PeerID, shardID uint32) {}
func (p verifC44Preferred) Remove(peerID core.PeerID)                                 {}
func (p verifC44Preferred) Clear()                                                    {}

func Verif_C44_evictionList() {
	n := verifParam("peers")
	env := &verifC44Env{}
	var seederAddrs []string
	isSeeder := make([]bool, n)
	for i := 0; i < n; i++ {
		id := peer.ID([]byte{'p', byte('0' + i)})
		env.ids = append(env.ids, id)
		t := verifU8("type")
		verifAssume(t <= 2) // validator / observer / unknown
		st := verifU8("subtype")
		verifAssume(st <= 1)
		env.ptype = append(env.ptype, t)
		env.subtype = append(env.subtype, st)
		env.shard = append(env.shard, uint32(verifU8("shard")&1))
		env.preferred = append(env.preferred, verifBool("preferred"))
		env.dist = append(env.dist, verifU8("dist"))
		if verifBool("seeder") {
			isSeeder[i] = true
			seederAddrs = append(seederAddrs, "/ip4/127.0.0.1/tcp/10000/p2p/"+core.PeerID(id).Pretty())
		}
	}
	ls := &listsSharder{peerShardResolver: env, selfPeerId: "self", preferredPeersHolder: verifC44Preferred{env}, seeders: seederAddrs}
	ls.computeDistance = func(src peer.ID, dest peer.ID) *big.Int {
		return big.NewInt(int64(env.dist[env.idx(core.PeerID(src))]))
	}
	// configuration accepted by NewListsSharder (its validation, restated)
	c := func(tag string, min int) int {
		v := int(verifU8(tag))
		verifAssume(v >= min && v <= verifParam("maxCfg"))
		return v
	}
	ls.maxIntraShardValidators, ls.maxCrossShardValidators = c("maxIV", 1), c("maxCV", 1)
	ls.maxIntraShardObservers, ls.maxCrossShardObservers = c("maxIO", 1), c("maxCO", 1)
	ls.maxSeeders, ls.maxFullHistoryObservers = c("maxSeed", 0), c("maxFH", 0)
	ls.maxUnknown = c("maxUnk", 1)
	ls.maxPeerCount = ls.maxIntraShardValidators + ls.maxCrossShardValidators + ls.maxIntraShardObservers + ls.maxCrossShardObservers + ls.maxSeeders + ls.maxFullHistoryObservers + ls.maxUnknown
	verifAssume(ls.maxPeerCount >= minAllowedConnectedPeersListSharder)

	evicted := ls.ComputeEvictionList(env.ids)

	count := make([]int, n)
	for _, ev := range evicted {
		i := env.idx(core.PeerID(ev))
		verifAssert(i >= 0, "only peers from the given list are proposed")
		if i >= 0 {
			count[i]++
			// known finding C44-preferred-seeder: the seeder test precedes the preferred-peer test
			verifKnown("C44-preferred-seeder", env.preferred[i] && isSeeder[i])
			verifAssert(!env.preferred[i], "a preferred peer is never proposed for eviction")
		}
	}
	remaining, remSeeders, remFullHistory := 0, 0, 0
	for i := 0; i < n; i++ {
		verifAssert(count[i] <= 1, "each peer proposed at most once")
		if count[i] == 0 && !env.preferred[i] {
			remaining++
			if isSeeder[i] {
				remSeeders++
			} else if core.P2PPeerType(env.ptype[i]) == core.ObserverPeer && core.P2PPeerSubType(env.subtype[i]) == core.FullHistoryObserver && env.shard[i] == 0 {
				remFullHistory++
			}
		}
	}
	if ls.maxFullHistoryObservers > 0 {
		verifAssert(remFullHistory <= ls.maxFullHistoryObservers, "remaining full-history observers within their limit")
	}
	verifAssert(remaining <= ls.maxPeerCount, "remaining non-preferred connections within the target peer count")
	verifAssert(remSeeders <= ls.maxSeeders, "remaining seeders within their limit")
	verifReach("end")
}
