package headersCache

import (
	"github.com/ElrondNetwork/elrond-go/config"
	"github.com/ElrondNetwork/elrond-go/data"
	"github.com/ElrondNetwork/elrond-go/data/block"
)

// Symbolic lockset over the pool API: each operation runs once on a pool that already holds headers;
// shard ids / nonces / hashes are symbolic. Accesses of different operations to the same location
// (maps are one pseudo-location each), one a write, without a common lock in a conflicting mode = race.
func Verif_C29_lockset() {
	pool, _ := NewHeadersPool(config.HeadersPoolConfig{MaxHeadersPerShard: 10, NumElementsToRemoveOnEviction: 1})
	pool.AddHeader([]byte("h0"), &block.Header{Nonce: 1, ShardID: 0})
	pool.AddHeader([]byte("h1"), &block.Header{Nonce: 2, ShardID: 1})
	verifRaceWatch(pool)
	s := func(tag string) uint32 { return verifU32(tag) & 3 }
	verifRaceBegin("Nonces")
	_ = pool.Nonces(s("s1"))
	verifRaceEnd()
	verifRaceBegin("GetNumHeaders")
	_ = pool.GetNumHeaders(s("s2"))
	verifRaceEnd()
	verifRaceBegin("Nonces#2")
	_ = pool.Nonces(s("s3"))
	verifRaceEnd()
	verifRaceBegin("Len")
	_ = pool.Len()
	_ = pool.MaxSize()
	verifRaceEnd()
	verifRaceBegin("GetHeaderByHash")
	_, _ = pool.GetHeaderByHash([]byte("h0"))
	verifRaceEnd()
	verifRaceBegin("GetHeadersByNonceAndShardId")
	_, _, _ = pool.GetHeadersByNonceAndShardId(1, s("s4"))
	verifRaceEnd()
	verifRaceBegin("RegisterHandler")
	pool.RegisterHandler(func(data.HeaderHandler, []byte) {})
	verifRaceEnd()
	verifRaceBegin("AddHeader")
	pool.AddHeader([]byte("h2"), &block.Header{Nonce: 3, ShardID: s("s5")})
	verifRaceEnd()
	verifRaceBegin("RemoveHeaderByHash")
	pool.RemoveHeaderByHash([]byte("h1"))
	verifRaceEnd()
	verifRaceBegin("RemoveHeaderByNonceAndShardId")
	pool.RemoveHeaderByNonceAndShardId(1, s("s6"))
	verifRaceEnd()
	verifRaceBegin("Clear")
	pool.Clear()
	verifRaceEnd()
	verifRaceCheck()
	verifReach("end")
}
