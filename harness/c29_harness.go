package headersCache

import (
	"github.com/ElrondNetwork/elrond-go/config"
	"github.com/ElrondNetwork/elrond-go/data"
	"github.com/ElrondNetwork/elrond-go/data/block"
)

// Symbolic lockset over the pool API: each operation runs once on a pool that already holds headers;
// shard ids / nonces / hashes are symbolic. Accesses of different operations to the same location
// (maps are one pseudo-location each), one a write, without a common lock in a conflicting mode = race.
func Verif_C29_lockset() {
	pool, _ := NewHeadersPool(config.HeadersPoolConfig{MaxHeadersPerShard: 10, NumElementsToRemoveOnEviction: 1})
	pool.AddHeader([]byte("h0"), &block.Header{Nonce: 1, ShardID: 0})
	pool.AddHeader([]byte("h1"), &block.Header{Nonce: 2, ShardID: 1})
	verifRaceWatch(pool)
	s := func(tag string) uint32 { return verifU32(tag) & 3 }
	verifRaceBegin("Nonces")
	_ = pool.Nonces(s("s1"))
	verifRaceEnd()
	verifRaceBegin("GetNumHeaders")
	_ = pool.GetNumHeaders(s("s2"))
	verifRaceEnd()
	verifRaceBegin("Nonces#2")
	_ = pool.Nonces(s("s3"))
	verifRaceEnd()
	verifRaceBegin("Len")
	_ = pool.Len()
	_ = pool.MaxSize()
	verifRaceEnd()
	verifRaceBegin("GetHeaderByHash")
	_, _ = pool.GetHeaderByHash([]byte("h0"))
	verifRaceEnd()
	verifRaceBegin("GetHeadersByNonceAndShardId")
	_, _, _ = pool.GetHeadersByNonceAndShardId(1, s("s4"))
	verifRaceEnd()
	verifRaceBegin("RegisterHandler")
	pool.RegisterHandler(func(data.HeaderHandler, []byte) {})
	verifRaceEnd()
	verifRaceBegin("AddHeader")
	pool.AddHeader([]byte("h2"), &block.Header{Nonce: 3, ShardID: s("s5")})
	verifRaceEnd()
	verifRaceBegin("RemoveHeaderByHash")
	pool.RemoveHeaderByHash([]byte("h1"))
	verifRaceEnd()
	verifRaceBegin("RemoveHeaderByNonceAndShardId")
	pool.RemoveHeaderByNonceAndShardId(1, s("s6"))
	verifRaceEnd()
	verifRaceBegin("Clear")
	pool.Clear()
	verifRaceEnd()
	verifRaceCheck()
	verifReach("end")
}

// Index consistency through the public API: after every operation, a header is found by hash exactly
// when it is listed under its shard and nonce, and the per-shard counts equal the number of stored headers.
func Verif_C29_indexes() {
	pool, _ := NewHeadersPool(config.HeadersPoolConfig{MaxHeadersPerShard: verifParam("maxPerShard"), NumElementsToRemoveOnEviction: 1})
	hashes := [][]byte{[]byte("h0"), []byte("h1"), []byte("h2")}[:verifParam("hashes")]
	shards := []uint32{0, 1}
	nonces := []uint64{5, 6}
	steps := verifParam("steps")
	for s := 0; s < steps; s++ {
		h := hashes[verifChoice("hash", len(hashes))]
		n := nonces[verifChoice("nonce", len(nonces))]
		sh := shards[verifChoice("shard", len(shards))]
		switch verifChoice("op", 3) {
		case 0:
			pool.AddHeader(h, &block.Header{Nonce: n, ShardID: sh})
		case 1:
			pool.RemoveHeaderByHash(h)
		case 2:
			pool.RemoveHeaderByNonceAndShardId(n, sh)
		}
		total := 0
		for _, shard := range shards {
			inShard := 0
			for _, nonce := range nonces {
				_, listed, err := pool.GetHeadersByNonceAndShardId(nonce, shard)
				if err != nil {
					listed = nil
				}
				for i, a := range listed {
					for j := 0; j < i; j++ {
						verifAssert(string(listed[j]) != string(a), "a header is listed once under its nonce")
					}
					hdr, errH := pool.GetHeaderByHash(a)
					verifAssert(errH == nil && hdr != nil, "a header listed under shard and nonce is found by hash")
					if errH == nil && hdr != nil {
						verifAssert(hdr.GetNonce() == nonce && hdr.GetShardID() == shard, "and it is the header of that shard and nonce")
					}
				}
				inShard += len(listed)
			}
			verifAssert(pool.GetNumHeaders(shard) == inShard, "the per-shard count equals the number of stored headers")
			total += inShard
		}
		verifAssert(pool.Len() == total, "the total count equals the number of stored headers")
		for _, hh := range hashes {
			hdr, err := pool.GetHeaderByHash(hh)
			if err == nil && hdr != nil {
				_, listed, err2 := pool.GetHeadersByNonceAndShardId(hdr.GetNonce(), hdr.GetShardID())
				found := false
				if err2 == nil {
					for _, a := range listed {
						found = found || string(a) == string(hh)
					}
				}
				verifAssert(found, "a header found by hash is listed under its shard and nonce")
			}
		}
	}
	verifReach("end")
}
