package headersCache

import (
	"github.com/ElrondNetwork/elrond-go/config"
	"github.com/ElrondNetwork/elrond-go/data/block"
)


// two concurrent read-style calls on a pool that already holds one header of shard 0
func Verif_C29_lockset() {
	pool, _ := NewHeadersPool(config.HeadersPoolConfig{MaxHeadersPerShard: 10, NumElementsToRemoveOnEviction: 1})
	pool.AddHeader([]byte("h0"), &block.Header{Nonce: 1, ShardID: 0})
	verifRaceWatch(pool)
	s1 := verifU32("shard1") & 1
	s2 := verifU32("shard2") & 1
	verifRaceBegin("Nonces")
	_ = pool.Nonces(s1)
	verifRaceEnd()
	verifRaceBegin("GetNumHeaders")
	_ = pool.GetNumHeaders(s2)
	verifRaceEnd()
	verifRaceBegin("Nonces#2")
	_ = pool.Nonces(s2)
	verifRaceEnd()
	verifRaceCheck()
	verifReach("end")
}
