package core

import "math/big"

// percentages are configuration floats: enumerated (strconv.FormatFloat is not encodable), with the
// decimal value N/10^k each one denotes written down by hand as the independent oracle
type verifPct struct {
	p float64
	n int64
	k int
}

var verifPcts = []verifPct{
	{0, 0, 0}, {1, 1, 0}, {0.1, 1, 1}, {0.5, 5, 1}, {0.25, 25, 2}, {0.3333333333333333, 3333333333333333, 16},
	{0.9999999999999999, 9999999999999999, 16}, {0.00000001, 1, 8}, {0.1004, 1004, 4}, {0.0005, 5, 4}, {0.9999, 9999, 4},
	{0.3333, 3333, 4}, {0.035, 35, 3}, {0.000000000000000001, 1, 18}, {0.7, 7, 1},
	{float64(1000) / float64(10000), 1, 1}, {float64(3745) / float64(10000), 3745, 4}, {float64(1) / float64(10000), 1, 4},
	{float64(9999) / float64(10000), 9999, 4}, {float64(7) / float64(10000), 7, 4},
}

func Verif_C36_trimmedPercentage() {
	e := verifPcts[verifChoice("pct", len(verifPcts))]
	value := verifBig("value")
	verifAssume(value.Sign() >= 0)
	r := GetIntTrimmedPercentageOfValue(value, e.p)
	verifAssert(r.Sign() >= 0, "result >= 0")
	verifAssert(r.Cmp(value) <= 0, "result <= value")
	// r = floor(value * n / 10^k)
	pow := big.NewInt(0).Exp(big.NewInt(10), big.NewInt(int64(e.k)), nil)
	vn := big.NewInt(0).Mul(value, big.NewInt(e.n))
	lo := big.NewInt(0).Mul(r, pow)
	hi := big.NewInt(0).Add(lo, pow)
	verifAssert(lo.Cmp(vn) <= 0 && vn.Cmp(hi) < 0, "result is value*p rounded down")
	// the original value is not modified
	verifReach("end")
}

// splitting an amount: owner part + rest = amount exactly, both parts non-negative
func Verif_C36_split() {
	e := verifPcts[verifChoice("pct", len(verifPcts))]
	amount := verifBig("amount")
	verifAssume(amount.Sign() >= 0)
	owner := GetIntTrimmedPercentageOfValue(amount, e.p)
	rest := big.NewInt(0).Sub(amount, owner)
	verifAssert(rest.Sign() >= 0, "remainder for delegators is not negative")
	verifAssert(big.NewInt(0).Add(owner, rest).Cmp(amount) == 0, "owner part plus remainder is exactly the amount")
	verifReach("end")
}
