package economics

import (
	"math/big"

	"github.com/ElrondNetwork/elrond-go/core"
	"github.com/ElrondNetwork/elrond-go/data/transaction"
	"github.com/ElrondNetwork/elrond-go/process"
)

// gas price modifiers are configuration floats: enumerated, never symbolic (FP x NIA is not decidable in practice)
var verifModifiers = []float64{1.0, 0.99999999, 0.5, 0.3, 0.01, 0.00000001}

type verifBuiltInCost struct {
	isBuiltIn bool
	cost      uint64
}

func (b *verifBuiltInCost) ComputeBuiltInCost(tx process.TransactionWithFeeHandler) uint64 { return b.cost }
func (b *verifBuiltInCost) IsBuiltInFuncCall(tx process.TransactionWithFeeHandler) bool   { return b.isBuiltIn }
func (b *verifBuiltInCost) IsInterfaceNil() bool                                           { return b == nil }

// Lemma (floating point, real code): for every uint64 gas price and every enumerated modifier the
// processing gas price never exceeds the gas price.
func Verif_C21_gasPriceLemma() {
	ed := &economicsData{}
	ed.gasPriceModifier = verifModifiers[verifParam("modifier")]
	if verifBool("flagModifier") {
		ed.flagGasPriceModifier.Set()
	}
	tx := &transaction.Transaction{GasPrice: verifU64("gasPrice")}
	r := ed.GasPriceForProcessing(tx)
	verifAssert(r <= tx.GasPrice, "processing gas price <= gas price")
	m := ed.MinGasPriceForProcessing()
	_ = m
	verifReach("end")
}

// Contract of GasPriceForProcessing used by the fee harness (established by Verif_C21_gasPriceLemma):
// a deterministic value r <= gasPrice.
var verifGppSet bool
var verifGppVal uint64

func verifSummaryGasPriceForProcessing(ed *economicsData, tx process.TransactionWithFeeHandler) uint64 {
	if !verifGppSet {
		verifGppSet = true
		verifGppVal = verifU64("gasPriceForProcessing")
		verifAssume(verifGppVal <= tx.GetGasPrice())
	}
	return verifGppVal
}

func verifEconomics() *economicsData {
	ed := &economicsData{
		minGasLimit:         verifU64("minGasLimit"),
		gasPerDataByte:      verifU64("gasPerDataByte"),
		minGasPrice:         verifU64("minGasPrice"),
		maxGasLimitPerBlock: verifU64("maxGasLimitPerBlock"),
		genesisTotalSupply:  big.NewInt(1).Lsh(big.NewInt(1), 80),
		gasPriceModifier:    1.0, // only read by the native replay; symbolically GasPriceForProcessing is its contract
	}
	verifAssume(ed.minGasLimit <= 1<<32 && ed.gasPerDataByte <= 1<<32 && ed.minGasPrice <= 1<<40 && ed.maxGasLimitPerBlock <= 1<<40)
	if verifBool("flagPenalized") {
		ed.flagPenalizedTooMuchGas.Set()
	}
	if verifBool("flagModifier") {
		ed.flagGasPriceModifier.Set()
	}
	return ed
}

// Valid facts of integer arithmetic (monotonicity of multiplication, distributivity) over the same
// products the fee code builds, stated as assumptions to help the nonlinear solver. They hold for all
// non-negative integers, so they exclude nothing.
func verifArithmeticHints(ed *economicsData, tx *transaction.Transaction, g1, g2 uint64) {
	r := ed.GasPriceForProcessing(tx)
	gp := tx.GasPrice
	M := ed.ComputeGasLimit(tx)
	L := tx.GasLimit
	le := func(a, b *big.Int) bool { return a.Cmp(b) <= 0 }
	if L >= M {
		verifAssume(le(core.SafeMul(r, L-M), core.SafeMul(gp, L-M)))                                       // r <= gp
		verifAssume(big.NewInt(0).Add(core.SafeMul(gp, M), core.SafeMul(gp, L-M)).Cmp(core.SafeMul(L, gp)) == 0) // distributivity
		verifAssume(big.NewInt(0).Add(core.SafeMul(gp, M), core.SafeMul(gp, L-M)).Cmp(core.SafeMul(gp, L)) == 0)
	}
	if g1 >= M && g2 >= g1 {
		verifAssume(le(core.SafeMul(r, g1-M), core.SafeMul(r, g2-M))) // g1 <= g2
	}
	if g2 >= M && L >= g2 {
		verifAssume(le(core.SafeMul(r, g2-M), core.SafeMul(r, L-M))) // g2 <= L
		verifAssume(le(core.SafeMul(r, g2-M), core.SafeMul(gp, g2-M)))
		verifAssume(le(core.SafeMul(gp, g2-M), core.SafeMul(gp, L-M)))
	}
}

// Fee bounds over the real fee functions; gas price, gas limit, data length, gas used and the whole
// fee configuration are symbolic.
func Verif_C21_feeBounds() {
	ed := verifEconomics()
	tx := &transaction.Transaction{GasPrice: verifU64("gasPrice"), GasLimit: verifU64("gasLimit"), Value: big.NewInt(0), Data: make([]byte, verifChoice("dataLen", 3))}
	verifAssume(tx.GasPrice < 1<<62)
	if ed.CheckValidityTxValues(tx) != nil {
		verifReach("invalid")
		return
	}
	legacy := !ed.flagPenalizedTooMuchGas.IsSet() && !ed.flagGasPriceModifier.IsSet()
	g1 := verifU64("gasUsed1")
	g2 := verifU64("gasUsed2")
	verifAssume(g1 <= g2 && g2 <= tx.GasLimit)
	verifArithmeticHints(ed, tx, g1, g2)
	full := ed.ComputeTxFee(tx)
	move := ed.ComputeMoveBalanceFee(tx)
	limitTimesPrice := big.NewInt(0).Mul(big.NewInt(0).SetUint64(tx.GasLimit), big.NewInt(0).SetUint64(tx.GasPrice))
	verifAssert(full.Cmp(move) >= 0, "fee >= move balance fee")
	verifAssert(full.Cmp(limitTimesPrice) <= 0, "fee <= gasLimit*gasPrice")
	used1 := ed.ComputeTxFeeBasedOnGasUsed(tx, g1)
	used2 := ed.ComputeTxFeeBasedOnGasUsed(tx, g2)
	verifAssert(used1.Cmp(used2) <= 0, "fee from gas used is monotone in gas used")
	verifAssert(used1.Cmp(move) >= 0, "fee from gas used >= move balance fee")
	// known finding C21-legacy-config: with neither fee flag active the full fee is only the move-balance fee
	verifKnown("C21-legacy-config", legacy)
	verifAssert(used2.Cmp(full) <= 0, "fee from gas used <= full fee")
	verifReach("valid")
}

// Refund accounting: fee(refund) = fee - refund exactly and the reported gas used stays within the gas limit.
func Verif_C21_refund() {
	// mainnet fee configuration (concrete): keeps the refund arithmetic linear in everything but price x gas
	ed := &economicsData{minGasLimit: 50000, gasPerDataByte: 1500, minGasPrice: 1000000000, maxGasLimitPerBlock: 1500000000,
		genesisTotalSupply: big.NewInt(1).Lsh(big.NewInt(1), 80), gasPriceModifier: 1.0}
	if verifBool("flagPenalized") {
		ed.flagPenalizedTooMuchGas.Set()
	}
	ed.flagGasPriceModifier.Set()
	bc := &verifBuiltInCost{isBuiltIn: verifParam("builtIn") == 1 && verifBool("isBuiltIn"), cost: verifU64("builtInCost")}
	verifAssume(bc.cost <= 1<<40)
	ed.builtInFunctionsCostHandler = bc
	tx := &transaction.Transaction{GasPrice: verifU64("gasPrice"), GasLimit: verifU64("gasLimit"), Value: big.NewInt(0), Data: make([]byte, verifChoice("dataLen", 2))}
	verifAssume(tx.GasPrice < 1<<62)
	if ed.CheckValidityTxValues(tx) != nil {
		verifReach("invalid")
		return
	}
	full := ed.ComputeTxFee(tx)
	move := ed.ComputeMoveBalanceFee(tx)
	refund := verifBig("refund")
	// a refund is part of the processing fee that was not consumed
	verifAssume(refund.Sign() >= 0 && big.NewInt(0).Add(move, refund).Cmp(full) <= 0)
	verifAssume(ed.GasPriceForProcessing(tx) >= 1)
	// known finding C21-builtin-cost-above-limit: a built-in call whose cost exceeds its gas limit
	verifKnown("C21-builtin-cost-above-limit", bc.isBuiltIn && refund.Sign() == 0 && bc.cost+ed.ComputeGasLimit(tx) > tx.GasLimit)
	gasUsed, fee := ed.ComputeGasUsedAndFeeBasedOnRefundValue(tx, refund)
	if refund.Sign() == 0 {
		verifAssert(gasUsed <= tx.GasLimit, "reported gas used <= gas limit")
	}
	if refund.Sign() > 0 {
		verifAssert(big.NewInt(0).Add(fee, refund).Cmp(full) == 0, "refund lowers the fee by exactly the refund")
	} else {
		verifAssert(fee.Cmp(full) <= 0, "fee without refund <= full fee")
	}
	verifReach("valid")
}

// Refund accounting with concrete prices (gas price and modifier from enumerated lists, so the
// processing price is a constant and the division in the refund path is by a constant; gas limit from an
// enumerated list as well): the refund is symbolic. Covers what the abstract-price harness leaves out: reported gas used <= gas limit and
// the fee recomputed from the reported gas used <= full fee.
var verifC21Prices = []uint64{1000000000, 1000000099, 1999999999, 123456789123}
var verifC21Limits = []uint64{50000, 51500, 60001, 500000, 1499999999}

func Verif_C21_refundConcretePrice() {
	ed := &economicsData{minGasLimit: 50000, gasPerDataByte: 1500, minGasPrice: 1000000000, maxGasLimitPerBlock: 1500000000,
		genesisTotalSupply: big.NewInt(1).Lsh(big.NewInt(1), 80), gasPriceModifier: verifModifiers[verifParam("modifier")]}
	ed.flagPenalizedTooMuchGas.Set()
	ed.flagGasPriceModifier.Set()
	ed.builtInFunctionsCostHandler = &verifBuiltInCost{}
	tx := &transaction.Transaction{GasPrice: verifC21Prices[verifChoice("price", len(verifC21Prices))], GasLimit: verifC21Limits[verifChoice("limit", len(verifC21Limits))], Value: big.NewInt(0), Data: make([]byte, verifChoice("dataLen", 2))}
	if ed.CheckValidityTxValues(tx) != nil {
		verifReach("invalid")
		return
	}
	full := ed.ComputeTxFee(tx)
	move := ed.ComputeMoveBalanceFee(tx)
	refund := verifBig("refund")
	verifAssume(refund.Sign() > 0 && big.NewInt(0).Add(move, refund).Cmp(full) <= 0)
	gasUsed, fee := ed.ComputeGasUsedAndFeeBasedOnRefundValue(tx, refund)
	verifAssert(big.NewInt(0).Add(fee, refund).Cmp(full) == 0, "refund lowers the fee by exactly the refund")
	verifAssert(gasUsed <= tx.GasLimit, "reported gas used <= gas limit")
	if gasUsed <= tx.GasLimit {
		verifAssert(ed.ComputeTxFeeBasedOnGasUsed(tx, gasUsed).Cmp(full) <= 0, "fee recomputed from the reported gas used <= full fee")
	}
	verifReach("valid")
}
