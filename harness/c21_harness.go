package economics

import (
	"math/big"

	"github.com/ElrondNetwork/elrond-go/data/transaction"
)


var verifModifiers = []float64{1.0, 0.5, 0.01}

func Verif_C21_feeBounds() {
	ed := &economicsData{
		minGasLimit:         50000,
		gasPerDataByte:      1500,
		minGasPrice:         1000000000,
		maxGasLimitPerBlock: 1500000000,
		genesisTotalSupply:  big.NewInt(1).Lsh(big.NewInt(1), 80),
	}
	ed.gasPriceModifier = verifModifiers[verifChoice("modifier", len(verifModifiers))]
	if verifBool("flagPenalized") {
		ed.flagPenalizedTooMuchGas.Set()
	}
	if verifBool("flagModifier") {
		ed.flagGasPriceModifier.Set()
	}
	tx := &transaction.Transaction{GasPrice: verifU64("gasPrice"), GasLimit: verifU64("gasLimit"), Value: big.NewInt(0), Data: make([]byte, verifChoice("dataLen", 3))}
	verifAssume(tx.GasPrice < 1<<62)
	if ed.CheckValidityTxValues(tx) != nil {
		verifReach("invalid")
		return
	}
	full := ed.ComputeTxFee(tx)
	move := ed.ComputeMoveBalanceFee(tx)
	limitTimesPrice := big.NewInt(0).Mul(big.NewInt(0).SetUint64(tx.GasLimit), big.NewInt(0).SetUint64(tx.GasPrice))
	verifAssert(full.Cmp(move) >= 0, "fee >= move balance fee")
	verifAssert(full.Cmp(limitTimesPrice) <= 0, "fee <= gasLimit*gasPrice")
	gasUsed := verifU64("gasUsed")
	verifAssume(gasUsed <= tx.GasLimit)
	used := ed.ComputeTxFeeBasedOnGasUsed(tx, gasUsed)
	if ed.flagPenalizedTooMuchGas.IsSet() || ed.flagGasPriceModifier.IsSet() {
		verifAssert(used.Cmp(full) <= 0, "fee from gas used <= full fee")
	}
	verifReach("valid")
}
