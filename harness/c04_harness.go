package trie

// Completeness + soundness on a trie with keys of different lengths (one a prefix of another, two
// sharing an extension): the proof of every present key verifies; verified against an arbitrary
// symbolic key Z of length 0..3 it verifies only if Z is one of the present keys.
func Verif_C04_sound() {
	tr := verifNewTrie()
	keys := [][]byte{{0x11, 0x22}, {0x11, 0xAA}, {0x22}, {0x11}}
	for i, k := range keys {
		_ = tr.Update(k, []byte{'v', byte('0' + i)})
	}
	if verifBool("committed") {
		_ = tr.Commit()
	}
	i := verifChoice("provenKey", len(keys))
	proof, err := tr.GetProof(keys[i])
	verifAssert(err == nil, "proof exists for a present key")
	ok, err := tr.VerifyProof(keys[i], proof)
	verifAssert(err == nil && ok, "the proof of a present key verifies")
	z := verifBytes("z", verifChoice("zlen", 4))
	var okz bool
	verifNoPanic(func() { okz, _ = tr.VerifyProof(z, proof) }, "VerifyProof never crashes")
	if okz {
		present := false
		for _, k := range keys {
			present = present || eqBytes(z, k)
		}
		verifAssert(present, "proof verified for a key that is not in the trie")
		verifReach("verified")
	} else {
		verifReach("rejected")
	}
}

// Absent keys: no proof-like list taken from the trie verifies for a key that was never inserted,
// also after deleting a key.
func Verif_C04_deleted() {
	tr := verifNewTrie()
	a, b, c := []byte{0x11, 0x22}, []byte{0x11, 0xAA}, []byte{0x22, 0x22}
	_ = tr.Update(a, []byte("va"))
	_ = tr.Update(b, []byte("vb"))
	_ = tr.Update(c, []byte("vc"))
	oldProof, _ := tr.GetProof(b)
	_ = tr.Delete(b)
	ok, _ := tr.VerifyProof(b, oldProof)
	verifAssert(!ok, "the old proof of a deleted key does not verify against the new root")
	newProof, _ := tr.GetProof(a)
	z := verifBytes("z", 2)
	ok, _ = tr.VerifyProof(z, newProof)
	if ok {
		verifAssert(eqBytes(z, a) || eqBytes(z, c), "after a delete only the remaining keys verify")
	}
	verifReach("end")
}

// Crash freedom on forged proofs: arbitrary bytes as proof nodes, arbitrary key.
func Verif_C04_nopanic() {
	tr := verifNewTrie()
	_ = tr.Update([]byte{0x11, 0xAA, 0xAA}, []byte("v1"))
	_ = tr.Update([]byte{0x22, 0xAA, 0xAA}, []byte("v2"))
	proof, _ := tr.GetProof([]byte{0x11, 0xAA, 0xAA})
	z := verifBytes("z", verifChoice("zlen", 4))
	verifNoPanic(func() { _, _ = tr.VerifyProof(z, proof) }, "VerifyProof never crashes on a real proof")
	// forged: the proof nodes are replaced by arbitrary short byte strings
	forged := [][]byte{verifBytes("f0", verifParam("forgedLen")), verifBytes("f1", 2)}
	verifNoPanic(func() { _, _ = tr.VerifyProof(z, forged) }, "VerifyProof never crashes on forged proof bytes")
	verifReach("end")
}
