package trie

import (
	"errors"

	"github.com/ElrondNetwork/elrond-go/core"
	"github.com/ElrondNetwork/elrond-go/data"
	"github.com/ElrondNetwork/elrond-go/hashing/blake2b"
	"github.com/ElrondNetwork/elrond-go/marshal"
)


type verifDB struct{ m map[string][]byte }

func (d *verifDB) Put(key, val []byte) error { d.m[string(key)] = val; return nil }
func (d *verifDB) Get(key []byte) ([]byte, error) {
	v, ok := d.m[string(key)]
	if !ok {
		return nil, errors.New("not found")
	}
	return v, nil
}
func (d *verifDB) Remove(key []byte) error { delete(d.m, string(key)); return nil }
func (d *verifDB) Close() error            { return nil }
func (d *verifDB) IsInterfaceNil() bool    { return d == nil }

type verifTSM struct{ db *verifDB }

func (t *verifTSM) Database() data.DBWriteCacher                                  { return t.db }
func (t *verifTSM) TakeSnapshot([]byte, bool, chan core.KeyValueHolder)            {}
func (t *verifTSM) SetCheckpoint([]byte, chan core.KeyValueHolder)                 {}
func (t *verifTSM) GetSnapshotThatContainsHash(rootHash []byte) data.SnapshotDbHandler { return nil }
func (t *verifTSM) IsPruningEnabled() bool                                         { return false }
func (t *verifTSM) IsPruningBlocked() bool                                         { return false }
func (t *verifTSM) EnterPruningBufferingMode()                                     {}
func (t *verifTSM) ExitPruningBufferingMode()                                      {}
func (t *verifTSM) GetSnapshotDbBatchDelay() int                                   { return 0 }
func (t *verifTSM) AddDirtyCheckpointHashes([]byte, data.ModifiedHashes) bool      { return false }
func (t *verifTSM) Remove(hash []byte) error                                       { return t.db.Remove(hash) }
func (t *verifTSM) Close() error                                                   { return nil }
func (t *verifTSM) IsInterfaceNil() bool                                           { return t == nil }

func verifNewTrie() *patriciaMerkleTrie {
	tr, _ := NewTrie(&verifTSM{db: &verifDB{m: map[string][]byte{}}}, &marshal.GogoProtoMarshalizer{}, blake2b.NewBlake2b(), 5)
	return tr
}

func eqBytes(a, b []byte) bool {
	if len(a) != len(b) {
		return false
	}
	r := true
	for i := range a {
		r = r && a[i] == b[i]
	}
	return r
}

// Soundness: proof of a present key must not verify for a different (absent) key Z.
func Verif_C04_sound() {
	tr := verifNewTrie()
	k1 := []byte{0x11, 0xAA}
	k2 := []byte{0x22, 0xAA}
	_ = tr.Update(k1, []byte("v1"))
	_ = tr.Update(k2, []byte("v2"))
	proof, err := tr.GetProof(k1)
	verifAssert(err == nil, "proof exists")
	z := verifBytes("z", 2)
	ok, _ := tr.VerifyProof(z, proof)
	if ok {
		verifAssert(eqBytes(z, k1) || eqBytes(z, k2), "proof verified for a key that is not in the trie")
		verifReach("verified")
	} else {
		verifReach("rejected")
	}
}

// Crash freedom: any key length 0..3 against a real proof.
func Verif_C04_nopanic() {
	tr := verifNewTrie()
	_ = tr.Update([]byte{0x11, 0xAA, 0xAA}, []byte("v1"))
	_ = tr.Update([]byte{0x22, 0xAA, 0xAA}, []byte("v2"))
	proof, _ := tr.GetProof([]byte{0x11, 0xAA, 0xAA})
	z := verifBytes("z", verifChoice("zlen", 4))
	_, _ = tr.VerifyProof(z, proof)
	verifReach("end")
}
