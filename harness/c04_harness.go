package trie

// Soundness: proof of a present key must not verify for a different (absent) key Z.
func Verif_C04_sound() {
	tr := verifNewTrie()
	k1 := []byte{0x11, 0xAA}
	k2 := []byte{0x22, 0xAA}
	_ = tr.Update(k1, []byte("v1"))
	_ = tr.Update(k2, []byte("v2"))
	proof, err := tr.GetProof(k1)
	verifAssert(err == nil, "proof exists")
	z := verifBytes("z", 2)
	ok, _ := tr.VerifyProof(z, proof)
	if ok {
		verifAssert(eqBytes(z, k1) || eqBytes(z, k2), "proof verified for a key that is not in the trie")
		verifReach("verified")
	} else {
		verifReach("rejected")
	}
}

// Crash freedom: any key length 0..3 against a real proof.
func Verif_C04_nopanic() {
	tr := verifNewTrie()
	_ = tr.Update([]byte{0x11, 0xAA, 0xAA}, []byte("v1"))
	_ = tr.Update([]byte{0x22, 0xAA, 0xAA}, []byte("v2"))
	proof, _ := tr.GetProof([]byte{0x11, 0xAA, 0xAA})
	z := verifBytes("z", verifChoice("zlen", 4))
	_, _ = tr.VerifyProof(z, proof)
	verifReach("end")
}
