#!/bin/sh
# usage: tools/confirm_mut.sh <mutdir with patch.diff demo_test.go> <package dir relative to repo>
# confirms: demo passes on the unchanged tree, fails with the patch, and the package's own tests pass with the patch
D="$(readlink -f "$1")"; PKG="$2"
WT=/tmp/wt_conf_$$
export GOFLAGS=-mod=mod GOPROXY=off GOSUMDB=off
git -C /repo worktree add --detach "$WT" HEAD >/dev/null 2>&1 || exit 3
cp "$D/demo_test.go" "$WT/$PKG/zz_demo_test.go"
(cd "$WT" && go test -vet=off -count=1 -run 'Demo|Seeded|Mut' ./$PKG/ > /tmp/conf_without.log 2>&1); RC1=$?
git -C "$WT" apply "$D/patch.diff" || { echo "PATCH DOES NOT APPLY"; git -C /repo worktree remove --force "$WT"; exit 3; }
(cd "$WT" && go test -vet=off -count=1 -run 'Demo|Seeded|Mut' ./$PKG/ > /tmp/conf_with.log 2>&1); RC2=$?
rm "$WT/$PKG/zz_demo_test.go"
(cd "$WT" && go test -vet=off -count=1 ./$PKG/ > /tmp/conf_pkg.log 2>&1); RC3=$?
git -C /repo worktree remove --force "$WT"
echo "demo without patch exit=$RC1 (want 0); demo with patch exit=$RC2 (want !=0); package tests with patch exit=$RC3 (want 0)"
grep -c "^=== RUN\|^--- " /tmp/conf_without.log /tmp/conf_with.log 2>/dev/null | head -2
tail -3 /tmp/conf_with.log | cut -c1-200
