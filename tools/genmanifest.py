#!/usr/bin/env python3
"""Regenerates /verif/MANIFEST.json from specs/*.json, na.json and properties.jsonl."""
import json, glob, os, sys
root = os.path.dirname(os.path.dirname(os.path.abspath(__file__)))
props = [json.loads(l) for l in open(os.path.join(root, 'properties.jsonl')) if l.strip()]
na = {}
p = os.path.join(root, 'na.json')
if os.path.exists(p):
    na = json.load(open(p))
checks = []
claimed = set()
for f in sorted(glob.glob(os.path.join(root, 'specs', 'C*.json'))):
    s = json.load(open(f))
    pid = s['property']
    if s.get('disabled'):
        continue
    claimed.add(pid)
    bounds = s.get('bounds', {})
    checks.append({
        'property_id': pid,
        'quick_cmd': './check %s quick' % pid,
        'thorough_cmd': './check %s thorough' % pid,
        'evidence_file': 'evidence/%s.json' % pid,
        'replay_cmd_template': 'sh {path}/replay.sh',
        'engine': 'gosx',
        'level_claimed': {
            'category': 'other',
            'text': s.get('level_text') or ('Bounded symbolic execution of the real Go functions with an SMT solver deciding every branch and assertion: within the stated bounds the assertion holds for every input value / choice, or a concrete counterexample is produced and replayed natively. Bounds: quick: %s; thorough: %s.' % (bounds.get('quick', '?'), bounds.get('thorough', '?'))),
            'design_ref': s.get('design_ref', 'DESIGN.md section 2, ' + pid),
        },
        'level_note': s.get('level_note') or ('Trusted: gosx interpreter and intrinsics, z3 5.1, go/ssa; stubs: %s; assumptions: %s; outside the claim: %s' % ('; '.join(s.get('stubs', [])) or 'none', '; '.join(s.get('assumptions', [])) or 'none', '; '.join(s.get('out_of_claim', [])) or 'everything beyond the stated bounds')),
        'technique': s.get('technique', 'bounded symbolic execution of go/ssa + SMT (z3), native replay of counterexamples'),
    })
nas = []
for pr in props:
    if pr['id'] not in claimed:
        nas.append({'property_id': pr['id'], 'reason': na.get(pr['id'], 'check not built yet in this session (planned in DESIGN.md section 2); not claimed')})
hooks_commits = []
hp = os.path.join(root, 'hooks_commits.txt')
if os.path.exists(hp):
    hooks_commits = [l.strip() for l in open(hp) if l.strip()]
m = {
    'version': 1,
    'setup_cmd': 'sh tools/setup.sh',
    'hooks': {
        'guard': 'verif',
        'enable': 'none needed: harnesses are injected in-package through go/packages overlays and go test -overlay; no hook files exist in /repo',
        'baseline_off_cmd': "cd /repo && go test -mod=mod -vet=off -count=1 -timeout 25m ./...",
        'source_commits': hooks_commits,
        'add_only': True,
    },
    'engines': [{'name': 'gosx', 'path': 'engine', 'serves_properties': sorted(claimed), 'kind_free_text': 'symbolic interpreter for go/ssa (SSA of the real /repo code, loaded at run time) producing SMT-LIB2 queries for z3 5.1; DFS over decision vectors, merging, guarded values, UF-injective hash model, big.Int over Int, native replay through go test -overlay'}],
    'checks': checks,
    'not_applicable': nas,
    'notes': 'All checks: ./check <id> quick|thorough (cwd /verif). Known findings in known_findings.jsonl. VERIF_REPO=<dir> points the checks at another checkout (used for seeded mutants).',
}
json.dump(m, open(os.path.join(root, 'MANIFEST.json'), 'w'), indent=1)
print('checks:', len(checks), 'not_applicable:', len(nas))
