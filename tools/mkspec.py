#!/usr/bin/env python3
# usage: mkspec.py C27 ./storage/immunitycache harness/c27_harness.go Verif_a,Verif_b   (creates specs/C27.json if absent, else appends unit)
import json, sys, os
root = os.path.dirname(os.path.dirname(os.path.abspath(__file__)))
pid, pkg, harness, entries = sys.argv[1:5]
p = os.path.join(root, 'specs', pid + '.json')
s = json.load(open(p)) if os.path.exists(p) else {'property': pid, 'units': [], 'bounds': {'quick': '', 'thorough': ''}, 'stubs': [], 'assumptions': [], 'out_of_claim': []}
s['units'].append({'pkg': pkg, 'harness': harness.split(','), 'entries': [{'fn': e} for e in entries.split(',')]})
json.dump(s, open(p, 'w'), indent=1)
