#!/bin/sh
# usage: tools/run_all.sh quick|thorough [ids...]  -> runs the checks one after the other, prints one summary line per check
TIER="$1"; shift
D="$(cd "$(dirname "$0")/.." && pwd)"
IDS="$@"
[ -z "$IDS" ] && IDS=$(ls "$D/specs" | sed 's/.json//' | sort)
sh "$D/tools/setup.sh" >/dev/null 2>&1
for id in $IDS; do
  grep -q '"disabled": true' "$D/specs/$id.json" && continue
  S=$(date +%s)
  OUT=$("$D/check" "$id" "$TIER" 2>&1); RC=$?
  E=$(( $(date +%s) - S ))
  echo "$id rc=$RC ${E}s :: $(echo "$OUT" | grep -c '^VIOLATION') violations :: $(echo "$OUT" | grep 'INCONCLUSIVE parts\|ERROR' | cut -c1-300 | head -2 | tr '\n' ' ')"
done
