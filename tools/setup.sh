#!/bin/sh
# builds the engine from files on disk only (offline)
set -e
D="$(cd "$(dirname "$0")/.." && pwd)"
export GOFLAGS=-mod=mod GOPROXY=off GOSUMDB=off GOTOOLCHAIN=local
mkdir -p "$D/bin" "$D/out" "$D/evidence"
cd "$D/engine" && go build -o "$D/bin/gosx" .
echo "gosx built"
