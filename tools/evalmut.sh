#!/bin/sh
# usage: tools/evalmut.sh <patch.diff> <property> [tier]   -> runs the property's check against a scratch worktree with the patch applied
P="$(readlink -f "$1")"; ID="$2"; TIER="${3:-quick}"
WT=/tmp/wt_eval_$$
git -C /repo worktree add --detach "$WT" HEAD >/dev/null 2>&1 || exit 3
if ! git -C "$WT" apply "$P"; then echo "PATCH DOES NOT APPLY"; git -C /repo worktree remove --force "$WT"; exit 3; fi
VERIF_REPO="$WT" /verif/check "$ID" "$TIER"; RC=$?
git -C /repo worktree remove --force "$WT"
echo "exit=$RC"
